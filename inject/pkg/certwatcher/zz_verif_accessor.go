//go:build verif

// Injected by /verif into a scratch copy of the repository.

package certwatcher

import "github.com/fsnotify/fsnotify"

// VerifWatcher exposes the fsnotify watcher so that the harness can watch a
// sentinel file through the very same event queue (barrier between steps).
func (cw *CertWatcher) VerifWatcher() *fsnotify.Watcher { return cw.watcher }

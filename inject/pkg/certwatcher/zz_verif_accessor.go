//go:build verif

// Injected by /verif into a scratch copy of the repository.

package certwatcher

import "github.com/fsnotify/fsnotify"

// VerifWatcher exposes the fsnotify watcher so that the harness can watch a
// sentinel file through the very same event queue (barrier between steps).
func (cw *CertWatcher) VerifWatcher() *fsnotify.Watcher { return cw.watcher }

// VerifEventHook, when set, is called by the two calls /verif's go/ast rewriter puts
// around the handling of one event in Watch: phase "start" before the event is handled,
// "done" after (everything the handler did for it, file reads included, is over).
// VerifHooksInserted tells the harness whether the rewriter found the site.
var (
	VerifEventHook     func(phase string, name string)
	VerifHooksInserted bool
)

func verifEventStart(ev fsnotify.Event) {
	if f := VerifEventHook; f != nil {
		f("start", ev.Name)
	}
}

func verifEventDone(ev fsnotify.Event) {
	if f := VerifEventHook; f != nil {
		f("done", ev.Name)
	}
}

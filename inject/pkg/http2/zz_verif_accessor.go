//go:build verif

// Injected by /verif into a scratch copy of the repository.

package http2

import "sync"

// VerifResetPools drops process-global pools whose contents (channels) must not
// cross synctest bubbles.
func VerifResetPools() {
	errChanPool = sync.Pool{
		New: func() interface{} { return make(chan error, 1) },
	}
}

// VerifYield, when set, is called at the fence sites inserted by /verif's
// go/ast rewriter (readFrames, sendServeMsg).  nil = no-op.
var VerifYield func(site string, remote string)

func verifYield(site string, sc *serverConn) {
	if f := VerifYield; f != nil {
		f(site, sc.conn.RemoteAddr().String())
	}
}

//go:build verif

// Injected by /verif into a scratch copy of the repository.

package http2

import (
	"fmt"
	"sync"
)

// VerifResetPools drops process-global pools whose contents (channels) must not
// cross synctest bubbles.
func VerifResetPools() {
	errChanPool = sync.Pool{
		New: func() interface{} { return make(chan error, 1) },
	}
}

// VerifYield, when set, is called at the fence sites inserted by /verif's
// go/ast rewriter (readFrames, sendServeMsg).  nil = no-op.
var VerifYield func(site string, remote string)

func verifYield(site string, sc *serverConn) {
	if f := VerifYield; f != nil {
		f(site, sc.conn.RemoteAddr().String())
	}
}

// ---- read-only views for the write-scheduler monitor (C20) and the flow-control ledger (C12)

type VerifWR struct {
	StreamID    uint32
	IsControl   bool // no stream attached
	IsData      bool
	Data        []byte // DATA payload (aliases the request's buffer; copy before keeping)
	EndStream   bool
	HasStream   bool
	StreamAvail int32 // min(stream window, connection window) right now
	MaxFrame    int32 // peer's SETTINGS_MAX_FRAME_SIZE
	Kind        string
}

func VerifInspect(wr FrameWriteRequest) VerifWR {
	v := VerifWR{StreamID: wr.StreamID(), IsControl: wr.isControl(), Kind: fmt.Sprintf("%T", wr.write)}
	if wd, ok := wr.write.(*writeData); ok {
		v.IsData = true
		v.Data = wd.p
		v.EndStream = wd.endStream
	}
	if wr.stream != nil {
		v.HasStream = true
		v.StreamAvail = wr.stream.flow.available()
		v.MaxFrame = wr.stream.sc.maxFrameSize
	}
	return v
}

// VerifPriorityTree checks the structural invariants of the priority scheduler's
// dependency tree: rooted at stream 0, acyclic, parent/child/sibling links
// consistent, every node in the map reachable from the root.
func VerifPriorityTree(ws WriteScheduler) (isPriority bool, problem string) {
	p, ok := ws.(*priorityWriteScheduler)
	if !ok {
		return false, ""
	}
	if p.nodes[0] != &p.root {
		return true, "nodes[0] is not the root"
	}
	if p.root.parent != nil {
		return true, "root has a parent"
	}
	seen := map[*priorityNode]bool{}
	var walk func(n *priorityNode, depth int) string
	walk = func(n *priorityNode, depth int) string {
		if seen[n] {
			return fmt.Sprintf("node %d reached twice (cycle or shared child)", n.id)
		}
		if depth > len(p.nodes)+1 {
			return "tree deeper than the number of nodes (cycle)"
		}
		seen[n] = true
		var prev *priorityNode
		steps := 0
		for k := n.kids; k != nil; k = k.next {
			if k.parent != n {
				return fmt.Sprintf("node %d is in the child list of %d but its parent is %v", k.id, n.id, nodeID(k.parent))
			}
			if k.prev != prev {
				return fmt.Sprintf("sibling links of node %d are inconsistent", k.id)
			}
			if s := walk(k, depth+1); s != "" {
				return s
			}
			prev = k
			steps++
			if steps > len(p.nodes)+1 {
				return fmt.Sprintf("child list of node %d does not end (cycle)", n.id)
			}
		}
		return ""
	}
	if s := walk(&p.root, 0); s != "" {
		return true, s
	}
	for id, n := range p.nodes {
		if n.id != id {
			return true, fmt.Sprintf("nodes[%d] has id %d", id, n.id)
		}
		if !seen[n] {
			return true, fmt.Sprintf("node %d is in the map but not reachable from the root", id)
		}
	}
	if len(seen) != len(p.nodes) {
		return true, fmt.Sprintf("%d nodes reachable from the root, %d in the map", len(seen), len(p.nodes))
	}
	return true, ""
}

func nodeID(n *priorityNode) interface{} {
	if n == nil {
		return nil
	}
	return n.id
}

// VerifNewRoundRobinWriteScheduler exposes the default scheduler constructor.
func VerifNewRoundRobinWriteScheduler() WriteScheduler { return newRoundRobinWriteScheduler() }

// verifYieldCapture is inserted before every "<x>.Mu.Lock()" statement of server.go.
func verifYieldCapture() {
	if f := VerifYield; f != nil {
		f("capture", "")
	}
}

// verifYieldWrite is inserted at the start of writeFrameAsync: the frame-writing
// goroutine parks before it touches the frame, holding no lock, while the serve
// loop believes a write is in flight - what a socket write blocked by TCP
// back-pressure looks like to the rest of the connection.
func verifYieldWrite(sc *serverConn) {
	if f := VerifYield; f != nil {
		f("write", sc.conn.RemoteAddr().String())
	}
}

// verifYieldServe is inserted before the select of the serve loop: while an
// asynchronous frame write is in flight the serve goroutine, which holds no lock
// there, parks until the controller lets it look at its channels - a serve loop
// that is late (scheduling, GC) while a write result and the next frame from the
// client both become ready.
func verifYieldServe(sc *serverConn) {
	if f := VerifYield; f != nil && sc.writingFrameAsync {
		f("serve", sc.conn.RemoteAddr().String())
	}
}

// verifYieldBodyRead is inserted at the start of noteBodyReadFromHandler.
func verifYieldBodyRead(sc *serverConn) {
	if f := VerifYield; f != nil {
		f("bodyread", sc.conn.RemoteAddr().String())
	}
}

//go:build verif

// Injected by /verif into a scratch copy of the repository.

package hpack

// VerifDynTable returns a read-only view of the decoder's dynamic table
// (oldest entry first), its size in octets, its current maximum size and the
// maximum the decoder allows.
func (d *Decoder) VerifDynTable() (ents []HeaderField, size, maxSize, allowed uint32) {
	return append([]HeaderField(nil), d.dynTab.table.ents...), d.dynTab.size, d.dynTab.maxSize, d.dynTab.allowedMaxSize
}

// VerifDynTable returns a read-only view of the encoder's dynamic table.
func (e *Encoder) VerifDynTable() (ents []HeaderField, size, maxSize uint32) {
	return append([]HeaderField(nil), e.dynTab.table.ents...), e.dynTab.size, e.dynTab.maxSize
}

//go:build verif

// Injected by /verif into a scratch copy of the repository.

package metadata

// VerifYield, when set, is called by the calls /verif's go/ast rewriter puts before
// every "<x>.Mu.RLock()" statement of this package (the reading side of the captured
// HTTP/2 data: a handler formatting the fingerprint): the controller can then let
// further frames of the connection be processed between two read sections.
var VerifYield func(site string)

func verifYieldRead() {
	if f := VerifYield; f != nil {
		f("fpread")
	}
}

// verifYieldWriteSide is put before every "<x>.Mu.Lock()" statement of this package, if
// there is one (the writing side of the captured data, should it live here).
func verifYieldWriteSide() {
	if f := VerifYield; f != nil {
		f("fpwrite")
	}
}

//go:build verif

// Injected by /verif into a scratch copy of the repository.

package proxyserver

import "net"

// VerifYield, when set, is called at the fence sites inserted by /verif's
// go/ast rewriter around the hand-over of a connection to the HTTP/1.1
// server in serveConn.  nil = no-op.
var VerifYield func(site string, remote string)

func verifYieldHandover(conn net.Conn) {
	if f := VerifYield; f != nil {
		f("handover", conn.RemoteAddr().String())
	}
}

//go:build verif

// Injected by /verif into a scratch copy of the repository; never committed
// to the repository itself.  Builds handler and server from CLI arguments the
// way Run does (same helper functions, same order), minus the parts that need
// a real OS: signal handling, the metrics listener, ListenAndServe.

package fingerproxy

import (
	"context"
	"crypto/tls"
	"flag"
	"io"

	"github.com/prometheus/client_golang/prometheus"
	"github.com/wi1dcard/fingerproxy/pkg/certwatcher"
	"github.com/wi1dcard/fingerproxy/pkg/proxyserver"
)

var verifCW *certwatcher.CertWatcher

// VerifInitCert loads the certificate through the real certwatcher.  Must be
// called outside any synctest bubble (fsnotify parks a goroutine in a syscall).
func VerifInitCert(certFile, keyFile string) error {
	cw, err := certwatcher.New(certFile, keyFile)
	if err != nil {
		return err
	}
	verifCW = cw
	return nil
}

func VerifBuild(ctx context.Context, args []string) (*proxyserver.Server, error) {
	flag.CommandLine = flag.NewFlagSet("fingerproxy", flag.ContinueOnError)
	flag.CommandLine.SetOutput(io.Discard)
	PrometheusRegistry = prometheus.NewRegistry()

	initFlags()
	if err := flag.CommandLine.Parse(args); err != nil {
		return nil, err
	}
	initFingerprint()

	server := defaultProxyServer(
		ctx,
		defaultReverseProxyHTTPHandler(
			parseForwardURL(),
			GetHeaderInjectors(),
		),
		defaultTLSConfig(verifCW),
	)
	return server, nil
}

// VerifTLSConfig builds the TLS configuration the way Run does (once, at start-up).
func VerifTLSConfig(cw *certwatcher.CertWatcher) *tls.Config { return defaultTLSConfig(cw) }

// VerifInitCertWatcher builds the certificate watcher the way Run does: file names from the
// command-line flags, through initCertWatcher.  (The package-level logger settings of
// certwatcher, which initCertWatcher replaces, are put back: the harness owns them.)
func VerifInitCertWatcher(certFile, keyFile string) (*certwatcher.CertWatcher, error) {
	flag.CommandLine = flag.NewFlagSet("fingerproxy", flag.ContinueOnError)
	flag.CommandLine.SetOutput(io.Discard)
	initFlags()
	if err := flag.CommandLine.Parse([]string{"-cert-filename", certFile, "-certkey-filename", keyFile}); err != nil {
		return nil, err
	}
	lg, vb := certwatcher.Logger, certwatcher.VerboseLogs
	defer func() { certwatcher.Logger, certwatcher.VerboseLogs = lg, vb }()
	return initCertWatcher(), nil
}

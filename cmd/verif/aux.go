package main

import (
	"crypto/sha256"
	"encoding/hex"
	"encoding/json"
	"fmt"
	"go/ast"
	"go/format"
	"go/parser"
	"go/token"
	"os"
	"path/filepath"
	"sort"
	"strings"
	"sync"
	"time"
)

// insertFences adds yield points to the scratch copy (DESIGN.md 3.4).  Sites
// are found by function name; the hook variable lives in an injected file.
// A missing site is reported, never an alarm.
func insertFences(repo string) error {
	type site struct {
		file, fn, label string
	}
	sites := []site{
		{"pkg/http2/server.go", "readFrames", "readFrames"},
		{"pkg/http2/server.go", "sendServeMsg", "sendServeMsg"},
	}
	var missing []string
	for _, s := range sites {
		path := filepath.Join(repo, s.file)
		fset := token.NewFileSet()
		f, err := parser.ParseFile(fset, path, nil, parser.ParseComments)
		if err != nil {
			return err
		}
		found := false
		ast.Inspect(f, func(n ast.Node) bool {
			fd, ok := n.(*ast.FuncDecl)
			if !ok || fd.Name.Name != s.fn || fd.Body == nil {
				return true
			}
			// insert `verifYield("<label>", sc)` before every top-level or
			// loop-level select statement that sends to the serve loop
			var visit func(list []ast.Stmt) []ast.Stmt
			visit = func(list []ast.Stmt) []ast.Stmt {
				var out []ast.Stmt
				for _, st := range list {
					switch x := st.(type) {
					case *ast.ForStmt:
						x.Body.List = visit(x.Body.List)
					case *ast.SelectStmt:
						if selectSends(x) {
							call := &ast.ExprStmt{X: &ast.CallExpr{
								Fun:  ast.NewIdent("verifYield"),
								Args: []ast.Expr{&ast.BasicLit{Kind: token.STRING, Value: fmt.Sprintf("%q", s.label)}, ast.NewIdent("sc")},
							}}
							out = append(out, call)
							found = true
						}
					}
					out = append(out, st)
				}
				return out
			}
			fd.Body.List = visit(fd.Body.List)
			return false
		})
		if !found {
			missing = append(missing, s.fn)
			continue
		}
		var sb strings.Builder
		if err := format.Node(&sb, fset, f); err != nil {
			return err
		}
		if err := os.WriteFile(path, []byte(sb.String()), 0o644); err != nil {
			return err
		}
	}
	// body-read fence: the handler side of "n request body bytes were read" (a goroutine of
	// the outbound transport, holding no lock) parks before it tells the serve loop, so that
	// the controller can let a RST_STREAM overtake the pending credit message
	if err := insertFuncStartFence(filepath.Join(repo, "pkg/http2/server.go"), "noteBodyReadFromHandler", "verifYieldBodyRead"); err != nil {
		missing = append(missing, "noteBodyReadFromHandler: "+err.Error())
	}
	// write fence: the frame-writing goroutine parks before the write (back-pressure stand-in)
	if err := insertFuncStartFence(filepath.Join(repo, "pkg/http2/server.go"), "writeFrameAsync", "verifYieldWrite"); err != nil {
		missing = append(missing, "writeFrameAsync: "+err.Error())
	}
	// serve fence: the serve loop parks before its select while an asynchronous write is in flight
	if err := insertServeFence(filepath.Join(repo, "pkg/http2/server.go")); err != nil {
		missing = append(missing, "serve loop: "+err.Error())
	}
	// capture fences: a yield before every "<x>.Mu.Lock()" statement in the forked
	// server (the locks around the captured fingerprint data), so that the controller
	// can run a handler between two critical sections of one frame's capture
	if err := insertLockFences(filepath.Join(repo, "pkg/http2/server.go"), "Lock", "verifYieldCapture"); err != nil {
		missing = append(missing, "capture locks: "+err.Error())
	}
	// read fences: a yield before every "<x>.Mu.RLock()" of the metadata package (a handler
	// formatting the fingerprint), so that frames can be processed between two read sections
	if err := insertLockFences(filepath.Join(repo, "pkg/metadata/http2.go"), "RLock", "verifYieldRead"); err != nil {
		missing = append(missing, "fingerprint read locks: "+err.Error())
	}
	// ... and before every "<x>.Mu.Lock()" there, should the writing side have moved into that
	// package (setters that take the lock themselves: one frame's capture can then be spread
	// over several critical sections without server.go showing it).  None on the pinned tree.
	_ = insertLockFences(filepath.Join(repo, "pkg/metadata/http2.go"), "Lock", "verifYieldWriteSide")
	// hand-over fences: around the hand-over of a connection to the HTTP/1.1 server
	if err := insertHandoverFences(filepath.Join(repo, "pkg/proxyserver/proxyserver.go")); err != nil {
		missing = append(missing, "hand-over: "+err.Error())
	}
	// event hooks around the certwatcher's event handling (C14 barrier)
	if err := insertCertwatcherHooks(filepath.Join(repo, "pkg/certwatcher")); err != nil {
		missing = append(missing, "certwatcher: "+err.Error())
	}
	if len(missing) > 0 {
		return fmt.Errorf("fence sites not found: %v", missing)
	}
	return nil
}

func insertLockFences(path, method, hook string) error {
	fset := token.NewFileSet()
	f, err := parser.ParseFile(fset, path, nil, parser.ParseComments)
	if err != nil {
		return err
	}
	n := 0
	isMuLock := func(st ast.Stmt) bool {
		es, ok := st.(*ast.ExprStmt)
		if !ok {
			return false
		}
		call, ok := es.X.(*ast.CallExpr)
		if !ok {
			return false
		}
		sel, ok := call.Fun.(*ast.SelectorExpr)
		if !ok || sel.Sel.Name != method {
			return false
		}
		inner, ok := sel.X.(*ast.SelectorExpr)
		return ok && inner.Sel.Name == "Mu"
	}
	var rewrite func(list []ast.Stmt) []ast.Stmt
	rewrite = func(list []ast.Stmt) []ast.Stmt {
		var out []ast.Stmt
		for _, st := range list {
			if isMuLock(st) {
				out = append(out, &ast.ExprStmt{X: &ast.CallExpr{Fun: ast.NewIdent(hook)}})
				n++
			}
			out = append(out, st)
		}
		return out
	}
	ast.Inspect(f, func(nd ast.Node) bool {
		switch x := nd.(type) {
		case *ast.BlockStmt:
			x.List = rewrite(x.List)
		case *ast.CaseClause:
			x.Body = rewrite(x.Body)
		case *ast.CommClause:
			x.Body = rewrite(x.Body)
		}
		return true
	})
	if n == 0 {
		return fmt.Errorf("no Mu.%s() statement found", method)
	}
	var sb strings.Builder
	if err := format.Node(&sb, fset, f); err != nil {
		return err
	}
	return os.WriteFile(path, []byte(sb.String()), 0o644)
}

func selectSends(s *ast.SelectStmt) bool {
	for _, c := range s.Body.List {
		cc := c.(*ast.CommClause)
		if _, ok := cc.Comm.(*ast.SendStmt); ok {
			return true
		}
	}
	return false
}

func collectRace(dir string) []string {
	var out []string
	matches, _ := filepath.Glob(filepath.Join(dir, "race.*"))
	for _, m := range matches {
		b, err := os.ReadFile(m)
		if err != nil {
			continue
		}
		for _, rep := range strings.Split(string(b), "==================") {
			if strings.Contains(rep, "WARNING: DATA RACE") {
				out = append(out, strings.TrimSpace(rep))
			}
		}
	}
	return out
}

// raceSig: the two innermost frames inside the repository of the two stacks.
func raceSig(rep string) string {
	var frames []string
	lines := strings.Split(rep, "\n")
	inStack := false
	taken := false
	for _, ln := range lines {
		t := strings.TrimSpace(ln)
		if strings.HasPrefix(t, "Read at") || strings.HasPrefix(t, "Write at") || strings.HasPrefix(t, "Previous read at") || strings.HasPrefix(t, "Previous write at") {
			inStack = true
			taken = false
			continue
		}
		if t == "" {
			inStack = false
			continue
		}
		if inStack && !taken && strings.Contains(t, "github.com/wi1dcard/fingerproxy") && strings.HasSuffix(t, ")") {
			fn := t[:strings.LastIndex(t, "(")]
			fn = strings.TrimPrefix(fn, "github.com/wi1dcard/fingerproxy/")
			frames = append(frames, fn)
			taken = true
		}
	}
	sort.Strings(frames)
	return "race:" + strings.Join(frames, "~")
}

type evidence struct {
	PropertyID  string         `json:"property_id"`
	Tier        string         `json:"tier"`
	Seed        int64          `json:"seed"`
	Level       string         `json:"level"`
	Coverage    map[string]any `json:"coverage"`
	Assumptions []string       `json:"assumptions"`
	WallS       float64        `json:"wall_s"`
	Violations  int            `json:"violations"`
}

// confirmDeath: a worker that died without statistics is re-run alone at the
// case it had announced; if it dies again, the death is the violation.
func confirmDeath(id string, seed int64, bin, scratch string, r workerResult) string {
	b, err := os.ReadFile(filepath.Join(r.dir, "announce"))
	if err != nil || r.timedOut {
		return ""
	}
	var kind string
	var n int
	if k, _ := fmt.Sscanf(string(b), "%s %d", &kind, &n); k != 2 {
		return ""
	}
	rp := Replay{Property: id, Seed: seed, Worker: r.idx, RapidSeed: r.rapidSeed}
	var rr workerResult
	dir := filepath.Join(scratch, fmt.Sprintf("death%d", r.idx))
	if kind == "enum" {
		rp.IsEnum, rp.EnumIndex = true, n
		rr = runWorker(bin, id, 950+r.idx, 1, 1, dir, []string{fmt.Sprintf("VERIF_ENUM=index:%d", n)}, nil, 10*time.Minute)
	} else {
		rp.RapidIter = n
		rr = runWorker(bin, id, 950+r.idx, r.rapidSeed, n+1, dir, nil, nil, 20*time.Minute)
	}
	if rr.stats != nil || rr.timedOut {
		return "" // did not die again: not reproducible, reported as trouble by the caller
	}
	if rr.stalled != r.stalled {
		return ""
	}
	if rr.stalled {
		// ended by the stall monitor both times: a violation only if the dump shows a goroutine
		// of a bubble still running inside fingerproxy (a loop that does not end)
		spin := spinningInSUT(rr.output)
		if spin == "" {
			fmt.Fprintf(os.Stderr, "verif: worker stalled, but no goroutine of the system under test was running:\n%s\n", tail(rr.output, 2500))
			return ""
		}
		rp.Death = "STALL: one case ran for more than " + stallLimit().String() + " without ending; this goroutine of the system under test was still running when the worker was sent SIGQUIT (a loop that does not end):\n" + spin + "\n\n" + tail(rr.output, 3000)
	} else if harnessOwnPanic(rr.output) {
		// the panicking goroutine is a simulated client of the harness and has no frame of the
		// code under test on its stack: a defect of the machinery, not a finding
		fmt.Fprintf(os.Stderr, "verif: the worker died in the harness's own client code:\n%s\n", tail(rr.output, 2500))
		return ""
	}
	if rp.Death == "" {
		rp.Death = tail(rr.output, 6000)
	}
	rp.Note = "the worker process was killed while running this case (a panic or fatal error in the system under test takes the whole process down); replay: verif replay <this file>"
	out := filepath.Join(verifDir, "replays", id)
	os.MkdirAll(out, 0o755)
	path := filepath.Join(out, fmt.Sprintf("%s-seed%d-death-%s%d.json", id, seed, kind, n))
	jb, _ := json.MarshalIndent(rp, "", " ")
	os.WriteFile(path, jb, 0o644)
	return path
}

// spinningInSUT returns the stack of a goroutine that a SIGQUIT dump shows as running inside a
// synctest bubble with a frame of fingerproxy ("" if there is none).
func spinningInSUT(dump string) string {
	for _, blk := range strings.Split(dump, "\n\n") {
		head, _, _ := strings.Cut(blk, "\n")
		if !strings.HasPrefix(head, "goroutine ") || !strings.Contains(head, "[running") {
			continue
		}
		if strings.Contains(blk, "github.com/wi1dcard/fingerproxy") && strings.Contains(dump, "synctest") {
			return blk
		}
	}
	return ""
}

// harnessOwnPanic: the goroutine that panicked (the first one printed) runs a scripted client
// of the harness and nothing of fingerproxy.
func harnessOwnPanic(out string) bool {
	i := strings.Index(out, "\ngoroutine ")
	if i < 0 || !(strings.Contains(out[:i], "panic:") || strings.Contains(out[:i], "fatal error:")) {
		return false
	}
	blk := out[i+1:]
	if j := strings.Index(blk, "\n\n"); j >= 0 {
		blk = blk[:j]
	}
	return strings.Contains(blk, "verif/harness.(*Client).") && !strings.Contains(blk, "github.com/wi1dcard/fingerproxy")
}

func writeEvidence(id, tier string, seed int64, agg *WorkerStats, distinct int, wall, buildS float64, violations, workers int, enumStride int) {
	if os.Getenv("VERIF_RUNS") != "" || os.Getenv("VERIF_REPO") != "" {
		return // development override of the run count: do not touch the evidence file
	}
	meta := checkMeta[id]
	if meta.Rule == "" {
		meta.Rule = agg.Rule
	}
	if meta.Level == "" {
		meta.Level = agg.Level
	}
	if meta.Real == nil {
		switch agg.Engine {
		case "B":
			meta.Real, meta.Stub, meta.Assumptions = realB, stubB, assumeB
		case "C":
			meta.Real, meta.Stub, meta.Assumptions = realC, stubC, assumeC
		default:
			meta.Real, meta.Stub, meta.Assumptions = realA, stubA, assumeA
		}
	}
	level := meta.Level
	if level == "" {
		level = "exploration"
	}
	samples := []any{}
	for _, s := range agg.Samples {
		if len(s) > 1500 {
			s = s[:1500] + "..."
		}
		samples = append(samples, s)
	}
	if len(samples) == 0 {
		samples = append(samples, "(no non-trivial run recorded a sample)")
	}
	runWall := wall - buildS
	if runWall <= 0 {
		runWall = 0.001
	}
	zeroProbes := []string{}
	for _, p := range meta.ExpectProbes {
		if agg.Probes[p] == 0 && agg.Faults[p] == 0 {
			zeroProbes = append(zeroProbes, p)
		}
	}
	cov := map[string]any{
		"evaluations":          agg.Runs,
		"distinct_nontrivial":  distinct,
		"rule":                 meta.Rule,
		"samples":              samples,
		"exhaustive":           false,
		"nontrivial_runs":      agg.Nontrivial,
		"controller_decisions": agg.Steps,
		"simulated_time_s":     float64(agg.SimTimeMS) / 1000,
		"bytes_delivered":      agg.Bytes,
		"runs_per_hour":        int(float64(agg.Runs) / runWall * 3600),
		"seeds_per_hour":       int(float64(agg.Runs) / runWall * 3600),
		"workers":              workers,
		"faults_fired":         agg.Faults,
		"probes":               agg.Probes,
		"probes_at_zero":       zeroProbes,
		"known_findings_met":   agg.Known,
		"stuck_runs":           agg.Stuck,
		"real_components":      meta.Real,
		"simulated_components": meta.Stub,
		"build_s":              buildS,
	}
	if agg.EnumCount > 0 {
		cov["enumerated_space"] = agg.EnumCount
		cov["enumerated_cases_run"] = agg.EnumRan
		cov["enumeration_stride"] = enumStride
		cov["enumeration_exhaustive"] = enumStride == 1 && agg.EnumRan == agg.EnumCount
		cov["enumeration_rule"] = agg.EnumRule
		cov["enumeration_params"] = agg.EnumParams
		cov["rule"] = meta.Rule + " | " + agg.EnumRule
	}
	ev := evidence{PropertyID: id, Tier: tier, Seed: seed, Level: level, Coverage: cov, Assumptions: meta.Assumptions, WallS: wall, Violations: violations}
	b, _ := json.MarshalIndent(ev, "", " ")
	os.MkdirAll(filepath.Join(verifDir, "evidence"), 0o755)
	os.WriteFile(filepath.Join(verifDir, "evidence", id+".json"), b, 0o644)
}

// cmdDeterminism: every seed is run in three fresh processes (forward order,
// reverse order, GOMAXPROCS=16 in the environment); trace digests must agree.
func cmdDeterminism(id string, nseeds int, seed int64) int {
	scratch, bin, _ := prepare(id+"-det", false)
	defer os.RemoveAll(scratch)
	type key struct{ mode, w int }
	res := map[key][]string{}
	var mu sync.Mutex
	var wg sync.WaitGroup
	workers := 8
	per := (nseeds + workers - 1) / workers
	// VERIF_DET_PARALLEL=1 runs the 24 processes at once (more processes than cores: time-sliced
	// preemption inside one controller step then reorders runnable goroutines and shows as
	// trace differences between otherwise equivalent runs, DESIGN 15.7); by default the three
	// modes run one after the other, 8 processes at a time
	parallel := os.Getenv("VERIF_DET_PARALLEL") != ""
	for mode := 0; mode < 3; mode++ {
		if !parallel {
			wg.Wait()
		}
		for w := 0; w < workers; w++ {
			wg.Add(1)
			go func(mode, w int) {
				defer wg.Done()
				env := []string{"VERIF_DIGESTS=1"}
				if mode == 2 {
					env = append(env, "GOMAXPROCS=16")
				}
				rs := splitmix(uint64(seed)*31+uint64(w)) | 1
				r := runWorker(bin, id, mode*100+w, rs, per, filepath.Join(scratch, fmt.Sprintf("d%d_%d", mode, w)), env, nil, 0)
				mu.Lock()
				if r.stats != nil {
					res[key{mode, w}] = r.stats.Digests
				}
				mu.Unlock()
			}(mode, w)
		}
	}
	wg.Wait()
	total, diverged := 0, 0
	for w := 0; w < workers; w++ {
		a, b, c := res[key{0, w}], res[key{1, w}], res[key{2, w}]
		n := len(a)
		if len(b) != n || len(c) != n {
			fmt.Printf("worker %d: digest list lengths differ: %d %d %d\n", w, len(a), len(b), len(c))
			diverged++
			continue
		}
		for i := 0; i < n; i++ {
			total++
			if a[i] != b[i] || a[i] != c[i] {
				diverged++
				fmt.Printf("DIVERGENCE worker %d run %d: %s %s %s\n", w, i, a[i], b[i], c[i])
			}
		}
	}
	fmt.Printf("determinism %s: %d seeds x 3 processes, %d diverged\n", id, total, diverged)
	if diverged > 0 || total == 0 {
		return 2
	}
	return 0
}

// raceRelevant: a report counts for the property only if one of its stacks is
// in the capture code of processFrame or in a metadata / fingerprint reader.
func raceRelevant(id, rep string) bool {
	if id == "C18" {
		return strings.Contains(rep, "pkg/http2/hpack.")
	}
	if id == "C06" {
		// state shared between connections: the same function of fingerproxy on both sides (two
		// connections executing the same code; the race worker keeps one request in flight per
		// connection, so two handlers of one connection do not meet).  A race between two
		// roles of ONE connection - e.g. the serve loop's SetMaxDynamicTableSize against the
		// frame writer's WriteField on the connection's HPACK encoder, present in the pinned
		// tree and upstream (observation O9) - is outside this property.
		parts := strings.Split(strings.TrimPrefix(raceSig(rep), "race:"), "~")
		return len(parts) == 2 && parts[0] == parts[1]
	}
	for _, k := range []string{"pkg/metadata.", "pkg/fingerprint.", "(*serverConn).processFrame"} {
		if strings.Contains(rep, k) {
			return true
		}
	}
	return false
}

func insertFuncStartFence(path, fn, hook string) error {
	fset := token.NewFileSet()
	f, err := parser.ParseFile(fset, path, nil, parser.ParseComments)
	if err != nil {
		return err
	}
	found := false
	for _, d := range f.Decls {
		fd, ok := d.(*ast.FuncDecl)
		if !ok || fd.Name.Name != fn || fd.Body == nil || fd.Recv == nil || len(fd.Recv.List) == 0 || len(fd.Recv.List[0].Names) == 0 {
			continue
		}
		recv := fd.Recv.List[0].Names[0].Name
		call := &ast.ExprStmt{X: &ast.CallExpr{Fun: ast.NewIdent(hook), Args: []ast.Expr{ast.NewIdent(recv)}}}
		fd.Body.List = append([]ast.Stmt{call}, fd.Body.List...)
		found = true
	}
	if !found {
		return fmt.Errorf("function not found")
	}
	var sb strings.Builder
	if err := format.Node(&sb, fset, f); err != nil {
		return err
	}
	return os.WriteFile(path, []byte(sb.String()), 0o644)
}

// insertHandoverFences puts a yield fence before every statement of the block
// of serveConn that hands the connection to the HTTP/1.1 server (the block
// containing the SendToChannel call), and one behind that block: the window
// between the end of the handshake, the hand-over and the wait for the
// HTTP/1.1 server is otherwise never split on one P.
func insertHandoverFences(path string) error {
	fset := token.NewFileSet()
	f, err := parser.ParseFile(fset, path, nil, parser.ParseComments)
	if err != nil {
		return err
	}
	fence := func() ast.Stmt {
		return &ast.ExprStmt{X: &ast.CallExpr{Fun: ast.NewIdent("verifYieldHandover"), Args: []ast.Expr{ast.NewIdent("conn")}}}
	}
	// the statement itself (not a nested block of it) calls <x>.SendToChannel(...)
	callsSend := func(st ast.Stmt) bool {
		has := false
		ast.Inspect(st, func(nd ast.Node) bool {
			switch x := nd.(type) {
			case *ast.BlockStmt, *ast.FuncLit:
				return false
			case *ast.CallExpr:
				if sel, ok := x.Fun.(*ast.SelectorExpr); ok && sel.Sel.Name == "SendToChannel" {
					has = true
				}
			}
			return true
		})
		return has
	}
	found := false
	for _, d := range f.Decls {
		fd, ok := d.(*ast.FuncDecl)
		if !ok || fd.Name.Name != "serveConn" || fd.Body == nil || fd.Type.Params == nil || len(fd.Type.Params.List) != 1 ||
			len(fd.Type.Params.List[0].Names) != 1 || fd.Type.Params.List[0].Names[0].Name != "conn" {
			continue
		}
		ast.Inspect(fd.Body, func(nd ast.Node) bool {
			if _, isLit := nd.(*ast.FuncLit); isLit {
				return false
			}
			b, ok := nd.(*ast.BlockStmt)
			if !ok {
				return true
			}
			has := false
			for _, st := range b.List {
				if callsSend(st) {
					has = true
				}
			}
			if !has {
				return true
			}
			var out []ast.Stmt
			for _, st := range b.List {
				// "if <x>.SendToChannel(...) { ... }": the branches run after the hand-over
				if is, ok := st.(*ast.IfStmt); ok && callsSend(st) {
					is.Body.List = append([]ast.Stmt{fence()}, is.Body.List...)
					if eb, ok := is.Else.(*ast.BlockStmt); ok {
						eb.List = append([]ast.Stmt{fence()}, eb.List...)
					}
				}
				out = append(out, fence(), st)
			}
			out = append(out, fence())
			b.List = out
			found = true
			return false
		})
	}
	if !found {
		return fmt.Errorf("serveConn hand-over block not found")
	}
	var sb strings.Builder
	if err := format.Node(&sb, fset, f); err != nil {
		return err
	}
	return os.WriteFile(path, []byte(sb.String()), 0o644)
}

// makeOverlay writes patched copies of two files of the Go runtime and returns the path of a
// -overlay file for the worker build ("" when the toolchain's sources do not have the expected
// shape: the build then goes ahead without it and the determinism self-test will say so).
//
// Why: inside one controller step several goroutines are runnable and the code under test
// (net/http, the forked http2 server and transport) waits in select statements with several
// ready cases, ranges over maps and draws jitter from math/rand - all of which take their
// randomness from per-thread generators of the runtime that are seeded from the kernel at
// process start.  One seed would then not be one execution.  The patch (worker binary only)
//   - seeds the runtime's global generator, and with it the hash keys, with a constant;
//   - inside synctest bubbles takes select tie-breaks (selectgo) and runtime.rand (map seeds,
//     map iteration offsets, math/rand's auto-seeded generators) from one splitmix64 stream
//     whose state the harness sets from VERIF_SEED's run seed at every controller step.
//
// Outside bubbles (GC, scheduler, the test framework) nothing changes.
func makeOverlay(goroot string) string {
	read := func(rel string) string {
		b, err := os.ReadFile(filepath.Join(goroot, "src", rel))
		if err != nil {
			return ""
		}
		return string(b)
	}
	sel, rnd, tim, prc, rt2 := read("runtime/select.go"), read("runtime/rand.go"), read("runtime/time.go"), read("runtime/proc.go"), read("runtime/runtime2.go")
	// a goroutine waiting for a sync.Mutex / sync.RWMutex counts as durably blocked inside the
	// bubble.  Stock synctest does not count it (the holder might live outside the bubble);
	// in the worker everything that shares a lock lives inside.  Without this, a goroutine
	// waiting for a lock whose holder is parked by the controller keeps the bubble from
	// ever becoming quiescent (the simulation hangs), and a real lock cycle in the code
	// under test hangs the worker instead of showing up as goroutines that never end.
	const rt2Old = "\twaitReasonSyncCondWait:          true,\n"
	// sync.Mutex switches to starvation mode (direct hand-off to the longest waiter) when a
	// waiter has waited for more than 1 ms of REAL time (runtime_nanotime, not the bubble's
	// clock): which goroutine gets a contended lock next then depends on how fast the machine
	// is.  Both orders are legal; the worker never enters starvation mode.
	mtx := read("internal/sync/mutex.go")
	const mtxOld = "\tstarvationThresholdNs = 1e6\n"
	const selOld = "j := cheaprandn(uint32(norder + 1))"
	const initOld = "\tglobalRand.state.Init(*seed)\n"
	const randOld = "func rand() uint64 {\n"
	// timers of a bubble that expire at the same instant are ordered by a per-timer random
	// value, deliberately (go1.25+); it comes from the seeded stream too
	const timOld = "\t\t\tt.rand = cheaprand()\n"
	// the 10 ms time slice after which sysmon asks the running goroutine (or a chain of
	// goroutines handing over through runnext) to yield: with it, the order in which the
	// goroutines woken by one controller step run depends on how long the step takes - on the
	// load of the machine.  The worker has one P and the controller waits for quiescence
	// anyway, so the slice is made practically infinite there.
	const prcOld = "const forcePreemptNS = 10 * 1000 * 1000 // 10ms"
	if strings.Count(sel, selOld) != 1 || strings.Count(rnd, initOld) != 1 || strings.Count(rnd, randOld) != 1 || strings.Count(tim, timOld) != 1 || strings.Count(prc, prcOld) != 1 || strings.Count(rt2, rt2Old) != 1 || strings.Count(mtx, mtxOld) != 1 {
		return ""
	}
	mtx = strings.Replace(mtx, mtxOld, "\tstarvationThresholdNs = 1 << 62 // /verif: no real-time dependent lock hand-off in the simulation worker\n", 1)
	if os.Getenv("VERIF_NO_MUTEX_DURABLE") == "" {
		rt2 = strings.Replace(rt2, rt2Old, rt2Old+"\twaitReasonSyncMutexLock:         true,\n\twaitReasonSyncRWMutexRLock:      true,\n\twaitReasonSyncRWMutexLock:       true,\n", 1)
	}
	prc = strings.Replace(prc, prcOld, "const forcePreemptNS = 1 << 62 // /verif: no time-sliced preemption in the simulation worker", 1)
	tim = strings.Replace(tim, timOld, "\t\t\tt.rand = verifTimerRand()\n", 1)
	sel = strings.Replace(sel, selOld, "j := verifSelectRandn(uint32(norder + 1))", 1)
	rnd = strings.Replace(rnd, initOld, "\tfor i := range seed {\n\t\tseed[i] = byte(i*37 + 11)\n\t}\n"+initOld, 1)
	rnd = strings.Replace(rnd, randOld, randOld+"\tif verifDet != 0 {\n\t\tif gp := getg(); gp != nil && gp.bubble != nil {\n\t\t\treturn verifNext()\n\t\t}\n\t}\n", 1)
	rnd += `
// verifDet is the state of the deterministic stream used inside synctest bubbles (0 = off).
// Set by the /verif harness through a linkname.
//
//go:linkname verifDet
var verifDet uint64

//go:nosplit
func verifNext() uint64 {
	verifDet += 0x9e3779b97f4a7c15
	z := verifDet
	z = (z ^ (z >> 30)) * 0xbf58476d1ce4e5b9
	z = (z ^ (z >> 27)) * 0x94d049bb133111eb
	z ^= z >> 31
	if verifDet == 0 {
		verifDet = 1
	}
	return z
}

//go:nosplit
func verifTimerRand() uint32 {
	if verifDet != 0 {
		if gp := getg(); gp != nil && gp.bubble != nil {
			return uint32(verifNext() >> 32)
		}
	}
	return cheaprand()
}

//go:nosplit
func verifSelectRandn(n uint32) uint32 {
	if verifDet != 0 {
		if gp := getg(); gp != nil && gp.bubble != nil {
			return uint32((uint64(uint32(verifNext()>>32)) * uint64(n)) >> 32)
		}
	}
	return cheaprandn(n)
}
`
	sum := sha256.Sum256([]byte(sel + rnd + tim + prc + rt2 + mtx))
	dir := filepath.Join(scratchRoot(), "overlay-"+hex.EncodeToString(sum[:6]))
	os.MkdirAll(dir, 0o755)
	os.WriteFile(filepath.Join(dir, "select.go"), []byte(sel), 0o644)
	os.WriteFile(filepath.Join(dir, "rand.go"), []byte(rnd), 0o644)
	os.WriteFile(filepath.Join(dir, "time.go"), []byte(tim), 0o644)
	os.WriteFile(filepath.Join(dir, "proc.go"), []byte(prc), 0o644)
	os.WriteFile(filepath.Join(dir, "runtime2.go"), []byte(rt2), 0o644)
	os.WriteFile(filepath.Join(dir, "mutex.go"), []byte(mtx), 0o644)
	ov := fmt.Sprintf(`{"Replace": {%q: %q, %q: %q, %q: %q, %q: %q, %q: %q, %q: %q}}`,
		filepath.Join(goroot, "src", "internal/sync/mutex.go"), filepath.Join(dir, "mutex.go"),
		filepath.Join(goroot, "src", "runtime/runtime2.go"), filepath.Join(dir, "runtime2.go"),
		filepath.Join(goroot, "src", "runtime/select.go"), filepath.Join(dir, "select.go"),
		filepath.Join(goroot, "src", "runtime/rand.go"), filepath.Join(dir, "rand.go"),
		filepath.Join(goroot, "src", "runtime/time.go"), filepath.Join(dir, "time.go"),
		filepath.Join(goroot, "src", "runtime/proc.go"), filepath.Join(dir, "proc.go"))
	path := filepath.Join(dir, "overlay.json")
	os.WriteFile(path, []byte(ov), 0o644)
	return path
}

// insertCertwatcherHooks puts verifEventStart(ev) / verifEventDone(ev) around the statement
// that handles an event in (*CertWatcher).Watch (the receive from <x>.Events), and records
// that it did: the C14 barrier then does not depend on log lines of the code under test.
func insertCertwatcherHooks(dir string) error {
	path := filepath.Join(dir, "certwatcher.go")
	fset := token.NewFileSet()
	f, err := parser.ParseFile(fset, path, nil, parser.ParseComments)
	if err != nil {
		return err
	}
	found := false
	for _, d := range f.Decls {
		fd, ok := d.(*ast.FuncDecl)
		if !ok || fd.Name.Name != "Watch" || fd.Body == nil {
			continue
		}
		ast.Inspect(fd.Body, func(nd ast.Node) bool {
			cc, ok := nd.(*ast.CommClause)
			if !ok || cc.Comm == nil {
				return true
			}
			as, ok := cc.Comm.(*ast.AssignStmt)
			if !ok || len(as.Lhs) == 0 || len(as.Rhs) != 1 {
				return true
			}
			ue, ok := as.Rhs[0].(*ast.UnaryExpr)
			if !ok || ue.Op != token.ARROW {
				return true
			}
			sel, ok := ue.X.(*ast.SelectorExpr)
			if !ok || sel.Sel.Name != "Events" {
				return true
			}
			evName, ok := as.Lhs[0].(*ast.Ident)
			if !ok || evName.Name == "_" {
				return true
			}
			mk := func(fn string) ast.Stmt {
				return &ast.ExprStmt{X: &ast.CallExpr{Fun: ast.NewIdent(fn), Args: []ast.Expr{ast.NewIdent(evName.Name)}}}
			}
			// after the leading "channel closed" check(s): the first statement that is not an if
			i := 0
			for i < len(cc.Body) {
				if _, isIf := cc.Body[i].(*ast.IfStmt); !isIf {
					break
				}
				i++
			}
			if i >= len(cc.Body) {
				return true
			}
			body := append([]ast.Stmt{}, cc.Body[:i]...)
			body = append(body, mk("verifEventStart"))
			body = append(body, cc.Body[i:]...)
			body = append(body, mk("verifEventDone"))
			cc.Body = body
			found = true
			return false
		})
	}
	if !found {
		return fmt.Errorf("event loop of Watch not found")
	}
	var sb strings.Builder
	if err := format.Node(&sb, fset, f); err != nil {
		return err
	}
	if err := os.WriteFile(path, []byte(sb.String()), 0o644); err != nil {
		return err
	}
	return os.WriteFile(filepath.Join(dir, "zz_verif_hooked.go"), []byte("//go:build verif\n\npackage certwatcher\n\nfunc init() { VerifHooksInserted = true }\n"), 0o644)
}

// insertServeFence puts `verifYieldServe(sc)` in front of the select statement of the
// main loop of (*serverConn).serve (the one that receives from sc.wantWriteFrameCh).
func insertServeFence(path string) error {
	fset := token.NewFileSet()
	f, err := parser.ParseFile(fset, path, nil, parser.ParseComments)
	if err != nil {
		return err
	}
	n := 0
	ast.Inspect(f, func(nd ast.Node) bool {
		fd, ok := nd.(*ast.FuncDecl)
		if !ok || fd.Name.Name != "serve" || fd.Recv == nil || fd.Body == nil {
			return true
		}
		for _, st := range fd.Body.List {
			fs, ok := st.(*ast.ForStmt)
			if !ok {
				continue
			}
			var out []ast.Stmt
			for _, in := range fs.Body.List {
				if sel, ok := in.(*ast.SelectStmt); ok && selectReceivesFrom(sel, "wantWriteFrameCh") {
					out = append(out, &ast.ExprStmt{X: &ast.CallExpr{Fun: ast.NewIdent("verifYieldServe"), Args: []ast.Expr{ast.NewIdent("sc")}}})
					n++
				}
				out = append(out, in)
			}
			fs.Body.List = out
		}
		return false
	})
	if n != 1 {
		return fmt.Errorf("%d select statements receiving from wantWriteFrameCh in serve, want 1", n)
	}
	var sb strings.Builder
	if err := format.Node(&sb, fset, f); err != nil {
		return err
	}
	return os.WriteFile(path, []byte(sb.String()), 0o644)
}

func selectReceivesFrom(sel *ast.SelectStmt, ch string) bool {
	found := false
	for _, c := range sel.Body.List {
		cc, ok := c.(*ast.CommClause)
		if !ok || cc.Comm == nil {
			continue
		}
		ast.Inspect(cc.Comm, func(n ast.Node) bool {
			if u, ok := n.(*ast.UnaryExpr); ok && u.Op == token.ARROW {
				if se, ok := u.X.(*ast.SelectorExpr); ok && se.Sel.Name == ch {
					found = true
				}
			}
			return true
		})
	}
	return found
}

// verif: orchestrator for the deterministic-simulation checks of
// wi1dcard/fingerproxy.  Plain Go, standard library only.
//
//	verif check <ID> [--tier quick|thorough] [--seed N] [--keep]
//	verif replay <replay.json>
//	verif determinism <ID> [--seeds N]
//
// Exit codes: 0 property held on everything explored (known findings are
// printed); 1 violation (line "VIOLATION property=<id> replay=<path>");
// 2 harness trouble (build failure, watchdog, replay divergence).
package main

import (
	"bufio"
	"bytes"
	"encoding/json"
	"fmt"
	"os"
	"os/exec"
	"path/filepath"
	"sort"
	"strconv"
	"strings"
	"sync"
	"syscall"
	"time"
)

const goBin = "go1.26.8"

// repoDir: the tree under test.  VERIF_REPO points a development run at another
// checkout (a scratch worktree with a seeded change applied, so that /repo stays
// untouched); such runs write no evidence.
var repoDir = func() string {
	if d := os.Getenv("VERIF_REPO"); d != "" {
		return d
	}
	return "/repo"
}()

// verifDir: the directory holding harness/, inject/, evidence/ ... - the
// working directory when it looks like one (so that a snapshot of /verif
// works from its own files), /verif otherwise.
var verifDir = func() string {
	if d := os.Getenv("VERIF_DIR"); d != "" {
		return d
	}
	if wd, err := os.Getwd(); err == nil {
		if _, err := os.Stat(filepath.Join(wd, "harness", "worker_test.go")); err == nil {
			return wd
		}
	}
	return "/verif"
}()

type tierCfg struct {
	QuickRuns       int // total runs over all workers
	ThoroughRuns    int
	Workers         int
	Enum            bool // the check has an enumerated part
	EnumQuickStride int  // quick tier: every n-th index (thorough: every index)
	Race            bool // additionally build and run a -race worker
	RaceQuick       int
	RaceThorough    int
	PerRunTimeout   time.Duration
}

var tiers = map[string]tierCfg{
	"C04": {QuickRuns: 64000, ThoroughRuns: 3200000, Workers: 16, Enum: true, EnumQuickStride: 1},
	"C08": {QuickRuns: 6400, ThoroughRuns: 160000, Workers: 16},
	"C12": {QuickRuns: 9600, ThoroughRuns: 160000, Workers: 16},
	"C20": {QuickRuns: 8000, ThoroughRuns: 80000, Workers: 16},
	"C13": {QuickRuns: 6400, ThoroughRuns: 160000, Workers: 16},
	"C14": {QuickRuns: 1600, ThoroughRuns: 60000, Workers: 8},
	"C18": {QuickRuns: 32000, ThoroughRuns: 1600000, Workers: 16, Race: true, RaceQuick: 64, RaceThorough: 4000},
	"C19": {QuickRuns: 48000, ThoroughRuns: 1600000, Workers: 16},
	"C10": {QuickRuns: 3200, ThoroughRuns: 200000, Workers: 16, Enum: true, EnumQuickStride: 7},
	"C11": {QuickRuns: 3200, ThoroughRuns: 200000, Workers: 16, Enum: true, EnumQuickStride: 7},
	"C06": {QuickRuns: 16000, ThoroughRuns: 400000, Workers: 16, Race: true, RaceQuick: 2000, RaceThorough: 40000},
	"C07": {QuickRuns: 6400, ThoroughRuns: 300000, Workers: 16, Race: true, RaceQuick: 400, RaceThorough: 20000},
}

func cfgFor(id string) tierCfg {
	if c, ok := tiers[id]; ok {
		return c
	}
	return tierCfg{QuickRuns: 16000, ThoroughRuns: 400000, Workers: 16}
}

type WorkerStats struct {
	Check        string         `json:"check"`
	Rule         string         `json:"rule"`
	Level        string         `json:"level"`
	Engine       string         `json:"engine"`
	Runs         int            `json:"runs"`
	Nontrivial   int            `json:"nontrivial"`
	SchedList    []string       `json:"scheds"`
	Steps        int            `json:"steps"`
	SimTimeMS    int64          `json:"sim_time_ms"`
	Faults       map[string]int `json:"faults"`
	Probes       map[string]int `json:"probes"`
	Samples      []string       `json:"samples"`
	Known        map[string]int `json:"known"`
	Failed       bool           `json:"failed"`
	Failure      *FailureRec    `json:"failure,omitempty"`
	WallS        float64        `json:"wall_s"`
	Digests      []string       `json:"digests,omitempty"`
	Stuck        int            `json:"stuck"`
	Bytes        int            `json:"bytes_delivered"`
	EnumCount    int            `json:"enum_count"`
	EnumParams   map[string]int `json:"enum_params,omitempty"`
	EnumRan      int            `json:"enum_ran"`
	EnumRule     string         `json:"enum_rule,omitempty"`
	FailIter     int            `json:"fail_iter"`
	FirstFailure *FailureRec    `json:"first_failure,omitempty"`
}

type FailureRec struct {
	Property  string            `json:"property"`
	Class     string            `json:"class"`
	Sig       string            `json:"sig"`
	Msg       string            `json:"msg"`
	All       []json.RawMessage `json:"all"`
	Summary   string            `json:"summary"`
	Decisions []json.RawMessage `json:"decisions"`
	Digest    string            `json:"digest"`
	Log       string            `json:"log,omitempty"`
	EnumIndex int               `json:"enum_index"`
	IsEnum    bool              `json:"is_enum"`
}

type Replay struct {
	Property  string      `json:"property"`
	Seed      int64       `json:"verif_seed"`
	RapidSeed uint64      `json:"rapid_seed"`
	Worker    int         `json:"worker"`
	Race      bool        `json:"race"`
	FailFile  string      `json:"rapid_failfile"` // content
	EnumIndex int         `json:"enum_index"`
	IsEnum    bool        `json:"is_enum"`
	RapidIter int         `json:"rapid_iter"` // process-death replays: iteration that killed the worker
	Death     string      `json:"death_output,omitempty"`
	Sequence  bool        `json:"sequence"` // replay = the same rapid seed run for rapid_iter+1 iterations
	Failure   *FailureRec `json:"failure"`
	Note      string      `json:"note"`
}

func die(code int, format string, args ...any) {
	fmt.Fprintf(os.Stderr, "verif: "+format+"\n", args...)
	os.Exit(code)
}

func goEnv() []string {
	env := os.Environ()
	env = append(env, "GOFLAGS=-mod=mod", "GOPROXY=off", "GOSUMDB=off", "GOTOOLCHAIN=local", "CGO_ENABLED=1")
	return env
}

func scratchRoot() string {
	d := os.Getenv("VERIF_SCRATCH")
	if d == "" {
		d = filepath.Join(os.TempDir(), "verif-scratch")
	}
	return d
}

func run(dir string, env []string, name string, args ...string) (string, error) {
	cmd := exec.Command(name, args...)
	cmd.Dir = dir
	cmd.Env = env
	var out bytes.Buffer
	cmd.Stdout = &out
	cmd.Stderr = &out
	err := cmd.Run()
	return out.String(), err
}

// prepare copies /repo's working tree to a scratch directory, injects the
// accessor files and yield fences, and builds the worker binary.
func prepare(id string, race bool) (scratch string, bin string, raceBin string) {
	// one scratch directory per invocation: concurrent runs of the same check (a
	// background sweep next to a foreground run) must not share it
	scratch = filepath.Join(scratchRoot(), fmt.Sprintf("%s-%d", id, os.Getpid()))
	os.RemoveAll(scratch)
	if err := os.MkdirAll(scratch, 0o755); err != nil {
		die(2, "mkdir scratch: %v", err)
	}
	repo := filepath.Join(scratch, "repo")
	if out, err := run("/", nil, "rsync", "-a", "--exclude", ".git", "--exclude", "e2e", "--exclude", "*.test", repoDir+"/", repo+"/"); err != nil {
		die(2, "copy repo: %v\n%s", err, out)
	}
	// injected accessor files (all //go:build verif)
	inj := filepath.Join(verifDir, "inject")
	filepath.Walk(inj, func(p string, info os.FileInfo, err error) error {
		if err != nil || info.IsDir() {
			return nil
		}
		rel, _ := filepath.Rel(inj, p)
		if strings.HasPrefix(rel, "root/") {
			rel = strings.TrimPrefix(rel, "root/")
		}
		dst := filepath.Join(repo, rel)
		os.MkdirAll(filepath.Dir(dst), 0o755)
		b, _ := os.ReadFile(p)
		os.WriteFile(dst, b, 0o644)
		return nil
	})
	if err := insertFences(repo); err != nil {
		fmt.Fprintf(os.Stderr, "verif: fences: %v (reduced schedule control)\n", err)
	}
	gomod := fmt.Sprintf(`module verif/harness

go 1.26

require (
	github.com/wi1dcard/fingerproxy v0.0.0
	pgregory.net/rapid v1.3.0
	github.com/anishathalye/porcupine v1.3.0
	github.com/refraction-networking/utls v1.6.0
	golang.org/x/net v0.19.0
)

replace github.com/wi1dcard/fingerproxy => %s
`, repo)
	os.WriteFile(filepath.Join(scratch, "go.mod"), []byte(gomod), 0o644)
	sum, _ := os.ReadFile(filepath.Join(repoDir, "go.sum"))
	extra, _ := os.ReadFile(filepath.Join(verifDir, "harness", "go.sum.extra"))
	os.WriteFile(filepath.Join(scratch, "go.sum"), append(sum, extra...), 0o644)

	bin = filepath.Join(scratch, "worker.test")
	overlay := ""
	if out, err := run(verifDir, goEnv(), goBin, "env", "GOROOT"); err == nil {
		overlay = makeOverlay(strings.TrimSpace(out))
	}
	tags := "verif"
	var ovArgs []string
	if overlay != "" {
		tags = "verif,verifdet"
		ovArgs = []string{"-overlay=" + overlay}
	} else {
		fmt.Fprintf(os.Stderr, "verif: runtime sources do not have the expected shape: building without the deterministic select / map patch\n")
	}
	args := []string{"test", "-c", "-trimpath", "-tags", tags, "-modfile=" + filepath.Join(scratch, "go.mod"), "-o", bin}
	args = append(append(args, ovArgs...), ".")
	if out, err := run(filepath.Join(verifDir, "harness"), goEnv(), goBin, args...); err != nil {
		die(2, "build failed:\n%s", out)
	}
	if race {
		raceBin = filepath.Join(scratch, "worker.race.test")
		args := []string{"test", "-c", "-race", "-trimpath", "-tags", tags, "-modfile=" + filepath.Join(scratch, "go.mod"), "-o", raceBin}
		args = append(append(args, ovArgs...), ".")
		if out, err := run(filepath.Join(verifDir, "harness"), goEnv(), goBin, args...); err != nil {
			die(2, "race build failed:\n%s", out)
		}
	}
	return
}

func splitmix(x uint64) uint64 {
	x += 0x9e3779b97f4a7c15
	z := x
	z = (z ^ (z >> 30)) * 0xbf58476d1ce4e5b9
	z = (z ^ (z >> 27)) * 0x94d049bb133111eb
	return z ^ (z >> 31)
}

// stallLimit: how long one case may run (real time) before the worker is taken for stalled.
func stallLimit() time.Duration {
	if v, err := time.ParseDuration(os.Getenv("VERIF_STALL_LIMIT")); err == nil && v > 0 {
		return v
	}
	return 150 * time.Second
}

type workerResult struct {
	stalled   bool
	idx       int
	rapidSeed uint64
	stats     *WorkerStats
	output    string
	err       error
	dir       string
	timedOut  bool
	race      bool
	enum      bool
}

func runWorker(bin, id string, idx int, rapidSeed uint64, checks int, dir string, extraEnv []string, extraArgs []string, timeout time.Duration) workerResult {
	if timeout <= 0 {
		timeout = time.Hour
	}
	os.MkdirAll(dir, 0o755)
	out := filepath.Join(dir, "stats.json")
	os.Remove(out)
	args := []string{"-test.run", "^TestWorker$", "-test.timeout", "0", "-test.cpu", "1",
		fmt.Sprintf("-rapid.checks=%d", checks), fmt.Sprintf("-rapid.seed=%d", rapidSeed), "-rapid.shrinktime=20s"}
	args = append(args, extraArgs...)
	cmd := exec.Command(bin, args...)
	cmd.Dir = dir
	cmd.Env = append(os.Environ(), "VERIF_CHECK="+id, "VERIF_OUT="+out, "GOMAXPROCS=1",
		"VERIF_TESTDATA="+filepath.Join(verifDir, "testdata"), "VERIF_KNOWN="+filepath.Join(verifDir, "KNOWN_FINDINGS.txt"))
	cmd.Env = append(cmd.Env, extraEnv...)
	// the worker announces every case before it runs it (one small file): the orchestrator
	// re-runs the announced case when a worker dies, and watches the file's age for stalls
	announce := ""
	for _, e := range cmd.Env {
		if strings.HasPrefix(e, "VERIF_ANNOUNCE=") {
			announce = strings.TrimPrefix(e, "VERIF_ANNOUNCE=")
		}
	}
	if announce == "" {
		announce = filepath.Join(dir, "announce")
		cmd.Env = append(cmd.Env, "VERIF_ANNOUNCE="+announce)
	}
	os.Remove(announce)
	var buf bytes.Buffer
	cmd.Stdout = &buf
	cmd.Stderr = &buf
	res := workerResult{idx: idx, rapidSeed: rapidSeed, dir: dir}
	if err := cmd.Start(); err != nil {
		res.err = err
		return res
	}
	done := make(chan error, 1)
	go func() { done <- cmd.Wait() }()
	// stall monitor: lock waits count as blocked in the worker's runtime, so what can still
	// keep a case from ending is a goroutine of the code under test that never stops running
	// (a walk over a cyclic structure, a retry loop); on the worker's single P, without time
	// slices, nothing else in that process runs then.  When one case has been running for
	// stallLimit the worker gets SIGQUIT: the Go runtime prints every goroutine and exits,
	// and the dump decides (spinningInSUT) whether this was the system under test.
	quit := make(chan struct{})
	stalled := make(chan struct{}, 1)
	started := time.Now()
	go func() {
		tk := time.NewTicker(5 * time.Second)
		defer tk.Stop()
		for {
			select {
			case <-quit:
				return
			case <-tk.C:
				ref := started
				if fi, err := os.Stat(announce); err == nil {
					ref = fi.ModTime()
				}
				if time.Since(ref) > stallLimit() {
					stalled <- struct{}{}
					cmd.Process.Signal(syscall.SIGQUIT)
					return
				}
			}
		}
	}()
	select {
	case err := <-done:
		res.err = err
	case <-time.After(timeout):
		cmd.Process.Kill()
		<-done
		res.timedOut = true
		res.err = fmt.Errorf("watchdog: worker exceeded %v", timeout)
	}
	close(quit)
	select {
	case <-stalled:
		res.stalled = true
		res.err = fmt.Errorf("stall monitor: one case ran for more than %v, worker ended with SIGQUIT", stallLimit())
	default:
	}
	res.output = buf.String()
	if b, err := os.ReadFile(out); err == nil {
		var st WorkerStats
		if json.Unmarshal(b, &st) == nil {
			res.stats = &st
		}
	}
	return res
}

func findFailFile(dir string) string {
	var found string
	filepath.Walk(filepath.Join(dir, "testdata"), func(p string, info os.FileInfo, err error) error {
		if err == nil && !info.IsDir() && strings.HasSuffix(p, ".fail") {
			found = p
		}
		return nil
	})
	return found
}

type knownEntry struct {
	state, prop, sig, text string
}

func loadKnown() []knownEntry {
	var out []knownEntry
	f, err := os.Open(filepath.Join(verifDir, "KNOWN_FINDINGS.txt"))
	if err != nil {
		return nil
	}
	defer f.Close()
	sc := bufio.NewScanner(f)
	for sc.Scan() {
		line := strings.TrimSpace(sc.Text())
		if line == "" || strings.HasPrefix(line, "#") {
			continue
		}
		fs := strings.Fields(line)
		e := knownEntry{state: strings.TrimSuffix(fs[0], ":")}
		var rest []string
		for _, x := range fs[1:] {
			switch {
			case strings.HasPrefix(x, "property="):
				e.prop = strings.TrimPrefix(x, "property=")
			case strings.HasPrefix(x, "sig="):
				e.sig = strings.TrimPrefix(x, "sig=")
			default:
				rest = append(rest, x)
			}
		}
		e.text = strings.Join(rest, " ")
		out = append(out, e)
	}
	return out
}

func cmdCheck(id string, tier string, seed int64, keep bool) int {
	start := time.Now()
	cfg := cfgFor(id)
	total := cfg.QuickRuns
	raceTotal := cfg.RaceQuick
	if tier == "thorough" {
		total = cfg.ThoroughRuns
		raceTotal = cfg.RaceThorough
	}
	if v := os.Getenv("VERIF_RUNS"); v != "" {
		total, _ = strconv.Atoi(v)
	}
	workers := cfg.Workers
	if workers == 0 {
		workers = 16
	}
	if total < workers {
		workers = max(1, total)
	}
	scratch, bin, raceBin := prepare(id, cfg.Race)
	if !keep {
		defer os.RemoveAll(scratch)
	}
	buildS := time.Since(start).Seconds()

	per := (total + workers - 1) / workers
	timeout := 10*time.Minute + time.Duration(per)*200*time.Millisecond
	if cfg.PerRunTimeout > 0 {
		timeout = 10*time.Minute + time.Duration(per)*cfg.PerRunTimeout
	}
	results := make([]workerResult, 0, workers+4)
	var mu sync.Mutex
	var wg sync.WaitGroup
	for i := 0; i < workers; i++ {
		wg.Add(1)
		go func(i int) {
			defer wg.Done()
			rs := splitmix(uint64(seed)*1000003+uint64(i)) | 1
			dir := filepath.Join(scratch, fmt.Sprintf("w%d", i))
			r := runWorker(bin, id, i, rs, per, dir, []string{"VERIF_ANNOUNCE=" + filepath.Join(dir, "announce")}, nil, timeout)
			mu.Lock()
			results = append(results, r)
			mu.Unlock()
		}(i)
	}
	enumStride, enumCount, enumRan := 0, 0, 0
	enumRule := ""
	if cfg.Enum {
		enumStride = 1
		if tier == "quick" && cfg.EnumQuickStride > 0 {
			enumStride = cfg.EnumQuickStride
		}
		if v := os.Getenv("VERIF_ENUM_STRIDE"); v != "" {
			enumStride, _ = strconv.Atoi(v)
		}
		nsh := 16
		for i := 0; i < nsh; i++ {
			wg.Add(1)
			go func(i int) {
				defer wg.Done()
				dir := filepath.Join(scratch, fmt.Sprintf("e%d", i))
				r := runWorker(bin, id, 200+i, 1, 1, dir, []string{fmt.Sprintf("VERIF_ENUM=%d:%d:%d", i, nsh, enumStride), "VERIF_ANNOUNCE=" + filepath.Join(dir, "announce")}, nil, time.Hour)
				r.enum = true
				mu.Lock()
				results = append(results, r)
				mu.Unlock()
			}(i)
		}
	}
	if cfg.Race && raceTotal > 0 {
		rw := 4
		rper := (raceTotal + rw - 1) / rw
		for i := 0; i < rw; i++ {
			wg.Add(1)
			go func(i int) {
				defer wg.Done()
				rs := splitmix(uint64(seed)*7000003+uint64(i)) | 1
				r := runWorker(raceBin, id, 100+i, rs, rper, filepath.Join(scratch, fmt.Sprintf("r%d", i)),
					[]string{"VERIF_RACE=1", "GORACE=halt_on_error=0 exitcode=0 log_path=" + filepath.Join(scratch, fmt.Sprintf("r%d", i), "race")}, nil, timeout)
				r.race = true
				mu.Lock()
				results = append(results, r)
				mu.Unlock()
			}(i)
		}
	}
	wg.Wait()
	sort.Slice(results, func(i, j int) bool { return results[i].idx < results[j].idx })

	exit := 0
	violations := 0
	// aggregate
	agg := &WorkerStats{Check: id, Faults: map[string]int{}, Probes: map[string]int{}, Known: map[string]int{}}
	scheds := map[string]bool{}
	trouble := []string{}
	var failures []workerResult
	raceReports := []string{}
	for _, r := range results {
		if r.stats == nil {
			if v := confirmDeath(id, seed, bin, scratch, r); v != "" {
				fmt.Printf("VIOLATION property=%s replay=%s\n  class=process_death the worker process was killed by the system under test, or had to be ended because a goroutine of it never stopped running (see death_output in the replay file)\n", id, v)
				violations++
				exit = 1
				continue
			}
			trouble = append(trouble, fmt.Sprintf("worker %d produced no statistics (%v):\n%s", r.idx, r.err, tail(r.output, 3000)))
			continue
		}
		st := r.stats
		agg.Runs += st.Runs
		if r.enum {
			enumCount = st.EnumCount
			agg.EnumParams = st.EnumParams
			enumRan += st.EnumRan
			enumRule = st.EnumRule
		}
		agg.Rule, agg.Level, agg.Engine = st.Rule, st.Level, st.Engine
		agg.Nontrivial += st.Nontrivial
		agg.Steps += st.Steps
		agg.SimTimeMS += st.SimTimeMS
		agg.Stuck += st.Stuck
		agg.Bytes += st.Bytes
		for k, v := range st.Faults {
			agg.Faults[k] += v
		}
		for k, v := range st.Probes {
			agg.Probes[k] += v
		}
		for k, v := range st.Known {
			agg.Known[k] += v
		}
		for _, s := range st.SchedList {
			scheds[s] = true
		}
		if len(agg.Samples) < 4 {
			agg.Samples = append(agg.Samples, st.Samples...)
		}
		if st.Failed {
			failures = append(failures, r)
		} else if r.err != nil && r.race && len(collectRace(r.dir)) > 0 {
			// a race worker stops at its first report: that is a result, not trouble
		} else if r.err != nil {
			trouble = append(trouble, fmt.Sprintf("worker %d failed without a recorded violation (%v):\n%s", r.idx, r.err, tail(r.output, 3000)))
		}
		if r.race {
			raceReports = append(raceReports, collectRace(r.dir)...)
		}
	}

	// confirm each failure by replaying its fail file in a fresh process
	seenClass := map[string]bool{}
	for _, r := range failures {
		f := r.stats.Failure
		if f == nil {
			trouble = append(trouble, fmt.Sprintf("worker %d failed but recorded no failure", r.idx))
			continue
		}
		if seenClass[f.Class+"|"+f.Sig] {
			continue
		}
		seenClass[f.Class+"|"+f.Sig] = true
		if f.IsEnum {
			rr := runWorker(bin, id, 900+r.idx, 1, 1, filepath.Join(scratch, fmt.Sprintf("confirm%d", r.idx)), []string{fmt.Sprintf("VERIF_ENUM=index:%d", f.EnumIndex)}, nil, 10*time.Minute)
			if rr.stats == nil || !rr.stats.Failed || rr.stats.Failure == nil || rr.stats.Failure.Class != f.Class {
				trouble = append(trouble, fmt.Sprintf("DIVERGENCE: enumerated case %d (%s: %s) did not reproduce in a fresh process", f.EnumIndex, f.Class, f.Msg))
				continue
			}
			rp := Replay{Property: id, Seed: seed, Worker: r.idx, IsEnum: true, EnumIndex: f.EnumIndex, Failure: rr.stats.Failure, Note: "replay: verif replay <this file> re-runs enumerated case enum_index"}
			dir := filepath.Join(verifDir, "replays", id)
			os.MkdirAll(dir, 0o755)
			path := filepath.Join(dir, fmt.Sprintf("%s-enum%d-%s.json", id, f.EnumIndex, sanitize(f.Class)))
			b, _ := json.MarshalIndent(rp, "", " ")
			os.WriteFile(path, b, 0o644)
			fmt.Printf("VIOLATION property=%s replay=%s\n  class=%s %s\n", id, path, f.Class, f.Msg)
			violations++
			exit = 1
			continue
		}
		ff := findFailFile(r.dir)
		if ff == "" {
			trouble = append(trouble, fmt.Sprintf("worker %d: violation %q but no rapid fail file:\n%s", r.idx, f.Msg, tail(r.output, 2000)))
			continue
		}
		content, _ := os.ReadFile(ff)
		wbin := bin
		if r.race {
			wbin = raceBin
		}
		rr := runWorker(wbin, id, 900+r.idx, 1, 1, filepath.Join(scratch, fmt.Sprintf("confirm%d", r.idx)), nil, []string{"-rapid.failfile=" + ff, "-rapid.nofailfile"}, 10*time.Minute)
		if rr.stats == nil || !rr.stats.Failed || rr.stats.Failure == nil || rr.stats.Failure.Class != f.Class {
			// The minimised case alone does not fail in a fresh process.  It may depend on
			// state the system under test carries from one run to the next inside a process
			// (a process-global pool, cache, counter): replay the whole sequence of runs.
			if !r.race && !r.enum {
				sr := runWorker(wbin, id, 940+r.idx, r.rapidSeed, r.stats.FailIter+1, filepath.Join(scratch, fmt.Sprintf("seq%d", r.idx)), nil, []string{"-rapid.shrinktime=1ms", "-rapid.nofailfile"}, 30*time.Minute)
				ff1 := r.stats.FirstFailure
				if ff1 == nil {
					ff1 = f
				}
				if sr.stats != nil && sr.stats.Failed && sr.stats.FirstFailure != nil && sr.stats.FailIter == r.stats.FailIter && sr.stats.FirstFailure.Class == ff1.Class {
					rp := Replay{Property: id, Seed: seed, RapidSeed: r.rapidSeed, Worker: r.idx, Sequence: true, RapidIter: r.stats.FailIter, Failure: sr.stats.FirstFailure,
						Note: "the violating run fails only after the runs that precede it in the same process: the system under test carries state from one connection/world to the next (process-global pool or cache). replay: verif replay <this file> re-runs rapid seed rapid_seed for rapid_iter+1 iterations"}
					dir := filepath.Join(verifDir, "replays", id)
					os.MkdirAll(dir, 0o755)
					path := filepath.Join(dir, fmt.Sprintf("%s-seed%d-w%d-seq-%s.json", id, seed, r.idx, sanitize(ff1.Class)))
					b, _ := json.MarshalIndent(rp, "", " ")
					os.WriteFile(path, b, 0o644)
					fmt.Printf("VIOLATION property=%s replay=%s\n  class=%s (depends on state carried across runs) %s\n", id, path, ff1.Class, sr.stats.FirstFailure.Msg)
					violations++
					exit = 1
					continue
				}
			}
			got := "no failure"
			if rr.stats != nil && rr.stats.Failure != nil {
				got = rr.stats.Failure.Class + ": " + rr.stats.Failure.Msg
			}
			// Two more attempts with the same file: what the simulator does not decide (a goroutine
			// cut by the runtime's time slice inside one controller step) can make a violation of the
			// code under test show in one execution and not in the next.
			reproduced := false
			for attempt := 2; attempt <= 3 && !reproduced; attempt++ {
				r2 := runWorker(wbin, id, 960+r.idx*4+attempt, 1, 1, filepath.Join(scratch, fmt.Sprintf("confirm%d_%d", r.idx, attempt)), nil, []string{"-rapid.failfile=" + ff, "-rapid.nofailfile"}, 10*time.Minute)
				if r2.stats != nil && r2.stats.Failed && r2.stats.Failure != nil && r2.stats.Failure.Class == f.Class {
					reproduced = true
				}
			}
			// The oracle did see the violation in the worker: it is reported, with the execution it
			// was seen in (seed, worker, iteration, minimised case) and the plain statement that the
			// replay file does not reproduce it every time.  On the unchanged tree this is as much
			// an alarm as trouble would be; on a changed tree it is the more useful answer.
			note := "observed by worker %d at rapid seed %d iteration %d; the minimised case did NOT reproduce it in 3 fresh processes (got: %s): the violation depends on something the simulator does not decide - typically a data race that only shows when the runtime's time slice cuts a goroutine inside one controller step"
			if reproduced {
				note = "observed by worker %d at rapid seed %d iteration %d; the minimised case reproduced it in one of 3 fresh processes only (first attempt: %s): timing-dependent inside one controller step"
			}
			rp := Replay{Property: id, Seed: seed, RapidSeed: r.rapidSeed, Worker: r.idx, Race: r.race, FailFile: string(content), RapidIter: r.stats.FailIter, Failure: f,
				Note: fmt.Sprintf(note, r.idx, r.rapidSeed, r.stats.FailIter, got)}
			dir := filepath.Join(verifDir, "replays", id)
			os.MkdirAll(dir, 0o755)
			path := filepath.Join(dir, fmt.Sprintf("%s-seed%d-w%d-unstable-%s.json", id, seed, r.idx, sanitize(f.Class)))
			b, _ := json.MarshalIndent(rp, "", " ")
			os.WriteFile(path, b, 0o644)
			fmt.Printf("VIOLATION property=%s replay=%s\n", id, path)
			fmt.Printf("  class=%s (seen once, replay unstable: see note in the replay file) %s\n", f.Class, f.Msg)
			fmt.Fprintf(os.Stderr, "verif: note: DIVERGENCE: violation class=%s found by worker %d did not reproduce reliably from its replay file (first attempt got: %s)\n", f.Class, r.idx, got)
			violations++
			exit = 1
			continue
		}
		rp := Replay{Property: id, Seed: seed, RapidSeed: r.rapidSeed, Worker: r.idx, Race: r.race, FailFile: string(content), Failure: rr.stats.Failure,
			Note: "replay: verif replay <this file>; the rapid fail file is the minimised choice sequence (plan, fault plan and decision tape)"}
		dir := filepath.Join(verifDir, "replays", id)
		os.MkdirAll(dir, 0o755)
		path := filepath.Join(dir, fmt.Sprintf("%s-seed%d-w%d-%s.json", id, seed, r.idx, sanitize(f.Class)))
		b, _ := json.MarshalIndent(rp, "", " ")
		os.WriteFile(path, b, 0o644)
		fmt.Printf("VIOLATION property=%s replay=%s\n", id, path)
		fmt.Printf("  class=%s %s\n", f.Class, rr.stats.Failure.Msg)
		violations++
		exit = 1
	}
	for _, rep := range dedupe(raceReports) {
		dir := filepath.Join(verifDir, "replays", id)
		os.MkdirAll(dir, 0o755)
		path := filepath.Join(dir, fmt.Sprintf("%s-seed%d-race-%x.txt", id, seed, splitmix(uint64(len(rep)))&0xffff))
		os.WriteFile(path, []byte(rep), 0o644)
		sig := raceSig(rep)
		if !raceRelevant(id, rep) {
			fmt.Fprintf(os.Stderr, "verif: note: race report outside the property's scope kept as diagnostic: %s (%s)\n", sig, path)
			continue
		}
		if isKnown(id, sig) {
			agg.Known[sig]++
			continue
		}
		fmt.Printf("VIOLATION property=%s replay=%s\n", id, path)
		fmt.Printf("  class=data_race %s\n", sig)
		violations++
		exit = 1
	}
	for _, k := range loadKnown() {
		if k.state == "open" && k.prop == id {
			fmt.Printf("KNOWN-FINDING: property=%s %s (sig=%s, met %d times in this run)\n", id, k.text, k.sig, agg.Known[k.sig])
		}
	}
	if len(trouble) > 0 {
		for _, t := range trouble {
			fmt.Fprintf(os.Stderr, "verif: TROUBLE: %s\n", t)
		}
		if exit == 0 {
			exit = 2
		}
	}
	wall := time.Since(start).Seconds()
	agg.EnumCount, agg.EnumRan, agg.EnumRule = enumCount, enumRan, enumRule
	writeEvidence(id, tier, seed, agg, len(scheds), wall, buildS, violations, workers, enumStride)
	fmt.Printf("check %s tier=%s seed=%d: runs=%d nontrivial=%d distinct_schedules=%d sim_time=%.0fs wall=%.1fs (build %.1fs) violations=%d known=%v exit=%d\n",
		id, tier, seed, agg.Runs, agg.Nontrivial, len(scheds), float64(agg.SimTimeMS)/1000, wall, buildS, violations, agg.Known, exit)
	return exit
}

func isKnown(id, sig string) bool {
	for _, k := range loadKnown() {
		if k.state == "open" && k.prop == id && k.sig == sig {
			return true
		}
	}
	return false
}

func sanitize(s string) string {
	var sb strings.Builder
	for _, c := range s {
		if c >= 'a' && c <= 'z' || c >= 'A' && c <= 'Z' || c >= '0' && c <= '9' || c == '_' || c == '-' {
			sb.WriteRune(c)
		} else {
			sb.WriteByte('_')
		}
	}
	return sb.String()
}

func dedupe(ss []string) []string {
	seen := map[string]bool{}
	var out []string
	for _, s := range ss {
		k := raceSig(s)
		if !seen[k] {
			seen[k] = true
			out = append(out, s)
		}
	}
	return out
}

func tail(s string, n int) string {
	if len(s) > n {
		return "..." + s[len(s)-n:]
	}
	return s
}

func cmdReplay(path string) int {
	b, err := os.ReadFile(path)
	if err != nil {
		die(2, "read replay: %v", err)
	}
	if strings.HasSuffix(path, ".txt") {
		fmt.Printf("race report (not replayable as a schedule; re-run the check to reproduce):\n%s\n", b)
		return 1
	}
	var rp Replay
	if err := json.Unmarshal(b, &rp); err != nil {
		die(2, "parse replay: %v", err)
	}
	scratch, bin, raceBin := prepare(rp.Property+"-replay", rp.Race)
	defer os.RemoveAll(scratch)
	if rp.Sequence {
		r := runWorker(bin, rp.Property, 0, rp.RapidSeed, rp.RapidIter+1, filepath.Join(scratch, "w0"), nil, []string{"-rapid.shrinktime=1ms", "-rapid.nofailfile"}, 30*time.Minute)
		if r.stats != nil && r.stats.Failed && r.stats.FirstFailure != nil {
			fmt.Printf("VIOLATION property=%s replay=%s\n  class=%s %s\n", rp.Property, path, r.stats.FirstFailure.Class, r.stats.FirstFailure.Msg)
			return 1
		}
		fmt.Printf("replay of %s: no violation on the current tree\n", path)
		return 0
	}
	if rp.IsEnum || rp.Death != "" {
		var env, args []string
		checks := 1
		rs := uint64(1)
		if rp.IsEnum {
			env = []string{fmt.Sprintf("VERIF_ENUM=index:%d", rp.EnumIndex)}
		} else {
			checks = rp.RapidIter + 1
			rs = rp.RapidSeed
		}
		r := runWorker(bin, rp.Property, 0, rs, checks, filepath.Join(scratch, "w0"), env, args, 20*time.Minute)
		if r.stats == nil {
			fmt.Printf("VIOLATION property=%s replay=%s\n  class=process_death the worker process died:\n%s\n", rp.Property, path, tail(r.output, 2500))
			return 1
		}
		if r.stats.Failed && r.stats.Failure != nil {
			fmt.Printf("VIOLATION property=%s replay=%s\n  class=%s %s\n", rp.Property, path, r.stats.Failure.Class, r.stats.Failure.Msg)
			return 1
		}
		fmt.Printf("replay of %s: no violation on the current tree\n", path)
		return 0
	}
	ff := filepath.Join(scratch, "replay.fail")
	os.WriteFile(ff, []byte(rp.FailFile), 0o644)
	wbin := bin
	if rp.Race {
		wbin = raceBin
	}
	r := runWorker(wbin, rp.Property, 0, 1, 1, filepath.Join(scratch, "w0"), []string{"VERIF_TRACE=" + os.Getenv("VERIF_TRACE")}, []string{"-rapid.failfile=" + ff, "-rapid.nofailfile", "-test.v"}, 10*time.Minute)
	if os.Getenv("VERIF_VERBOSE") != "" {
		fmt.Println(r.output)
	}
	if r.stats == nil {
		fmt.Fprintf(os.Stderr, "verif: replay produced no statistics:\n%s\n", tail(r.output, 3000))
		return 2
	}
	if r.stats.Failed && r.stats.Failure != nil {
		f := r.stats.Failure
		if rp.Failure != nil && f.Digest != rp.Failure.Digest {
			fmt.Fprintf(os.Stderr, "verif: note: trace digest differs from the recorded one (%s vs %s): the tree changed or the run diverged\n", f.Digest, rp.Failure.Digest)
		}
		fmt.Printf("VIOLATION property=%s replay=%s\n  class=%s %s\n", rp.Property, path, f.Class, f.Msg)
		fmt.Printf("  case: %s\n", f.Summary)
		return 1
	}
	fmt.Printf("replay of %s: no violation on the current tree\n", path)
	return 0
}

func main() {
	if len(os.Args) < 3 {
		die(2, "usage: verif check <ID> [--tier quick|thorough] [--seed N] | verif replay <file> | verif determinism <ID>")
	}
	seed := int64(1)
	if v := os.Getenv("VERIF_SEED"); v != "" {
		if n, err := strconv.ParseInt(v, 10, 64); err == nil {
			seed = n
		}
	}
	tier := "quick"
	keep := false
	nseeds := 200
	args := os.Args[3:]
	for i := 0; i < len(args); i++ {
		switch args[i] {
		case "--tier":
			i++
			tier = args[i]
		case "--seed":
			i++
			seed, _ = strconv.ParseInt(args[i], 10, 64)
		case "--keep":
			keep = true
		case "--seeds":
			i++
			nseeds, _ = strconv.Atoi(args[i])
		}
	}
	if v := os.Getenv("VERIF_TIER"); v == "quick" || v == "thorough" {
		tier = v
	}
	switch os.Args[1] {
	case "check":
		os.Exit(cmdCheck(os.Args[2], tier, seed, keep))
	case "replay":
		os.Exit(cmdReplay(os.Args[2]))
	case "determinism":
		os.Exit(cmdDeterminism(os.Args[2], nseeds, seed))
	default:
		die(2, "unknown command %q", os.Args[1])
	}
}

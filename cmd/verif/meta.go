package main

type checkMetaT struct {
	Level        string
	Rule         string
	Real         []string
	Stub         []string
	Assumptions  []string
	ExpectProbes []string
}

var realA = []string{"pkg/proxyserver", "pkg/hack", "pkg/metadata", "pkg/fingerprint", "pkg/ja3", "pkg/ja4", "pkg/reverseproxy", "pkg/http2 (server, framer, flow control, write schedulers)", "fingerproxy.go/flags.go wiring (through injected accessor VerifBuild)", "pkg/certwatcher (initial load only)", "crypto/tls", "net/http", "net/http/httputil", "tlsx", "utls"}
var stubA = []string{"network (simnet: in-flight queues, controller-decided delivery, segmentation, FIN/RST, injected I/O errors)", "clock (testing/synctest bubble)", "goroutine wake-up order (one controller decision at a time at quiescence)", "clients (utls handshake + scripted raw HTTP/1.1 bytes / raw HTTP/2 frames)", "back-end (net/http server with recording handler on a simulated listener)", "OS signal (context cancel)"}
var assumeA = []string{"go1.26.8 standard library (testing/synctest) instead of the toolchain the binary ships with", "TCP back-pressure is not simulated (writes never block)", "scheduling is cooperative: interleavings are explored at I/O, callback and fence points only", "worker runtime patched by -overlay (worker binary only): select / map / timer tie-breaks from the seeded stream, no time-sliced preemption, lock waits count as blocked for quiescence, no real-time dependent sync.Mutex starvation mode - every resulting execution is one the stock runtime can produce", "sampling, not proof"}

var checkMeta = map[string]checkMetaT{}

var realB = []string{"the library surface under test (pkg/hack wrapper, pkg/http2 Framer, pkg/http2/hpack) - real code"}
var stubB = []string{"byte stream: simulated reader/writer that cuts, short-reads and fails at seeded offsets"}
var assumeB = []string{"single goroutine: no scheduling dimension", "sampling, not proof"}
var realC = []string{"pkg/certwatcher", "fsnotify", "kernel inotify + filesystem (real)", "crypto/tls handshake over net.Pipe"}
var stubC = []string{"update history (seeded generator of file operations)", "schedule between steps (sentinel-file barrier)"}
var assumeC = []string{"event order inside one step is the kernel's, not controlled", "sampling, not proof"}

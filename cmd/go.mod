module verif/cmd

go 1.23

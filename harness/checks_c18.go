package harness

// Engine B (simstream), C18: pkg/http2/hpack (the repository's copy, which the
// proxy itself does not import) as two endpoints exchanging header blocks one
// way and table-size limits the other way; blocks are delivered to the decoder
// in fragments cut at seeded offsets; truncation by Close at an offset.

import (
	"bytes"
	"fmt"
	"strings"
	"sync"

	rhpack "github.com/wi1dcard/fingerproxy/pkg/http2/hpack"
	xhpack "golang.org/x/net/http2/hpack"
	"pgregory.net/rapid"
)

type c18Op struct {
	Kind   string // block, resize, garbage, truncate
	Fields []rhpack.HeaderField
	Size   uint32
	Cuts   []int
	Raw    []byte
	Delay  int // resize: number of blocks after which the encoder learns the new limit
	CutAt  int // truncate: number of bytes of the block that arrive before Close
	Mute   int // block: >= 0: the receiver switches emission off after that many fields of this block (as a header-list limit does) and on again for the next block; -1: never
}

func drawField(t *rapid.T) rhpack.HeaderField {
	names := []string{":method", ":path", ":status", "accept", "cookie", "x-a", "x-b", "user-agent", "content-type", "set-cookie", "x-long-name-0123456789", ""}
	f := rhpack.HeaderField{}
	if drawBool(t, "stdname", 70) {
		f.Name = names[rapid.IntRange(0, len(names)-2).Draw(t, "name")]
	} else {
		f.Name = printable(drawBytes(t, "rname", 20))
	}
	switch rapid.IntRange(0, 5).Draw(t, "vkind") {
	case 0:
		f.Value = []string{"GET", "/", "200", "*/*", "gzip, deflate", ""}[rapid.IntRange(0, 5).Draw(t, "sv")]
	case 1:
		f.Value = fmt.Sprintf("v%d", rapid.IntRange(0, 6).Draw(t, "small"))
	case 2:
		f.Value = string(drawBytes(t, "bin", 40)) // any bytes, exercises every Huffman code
	case 3:
		f.Value = printable(drawBytes(t, "big", 5000)) // may exceed the table
	default:
		f.Value = printable(drawBytes(t, "pv", 30))
	}
	f.Sensitive = drawBool(t, "sensitive", 15)
	return f
}

func drawCuts(t *rapid.T, label string) []int {
	switch rapid.IntRange(0, 3).Draw(t, label) {
	case 0:
		return nil // one write
	case 1:
		c := make([]int, 64)
		for i := range c {
			c[i] = 1
		}
		return c
	default:
		n := rapid.IntRange(1, 12).Draw(t, label+"_n")
		var c []int
		for i := 0; i < n; i++ {
			c = append(c, rapid.IntRange(1, 40).Draw(t, label+"_c"))
		}
		return c
	}
}

func drawC18(t *rapid.T) *Case {
	var ops []c18Op
	initial := uint32([]int{4096, 0, 64, 256, 65536}[rapid.IntRange(0, 4).Draw(t, "initial")])
	n := rapid.IntRange(1, 12).Draw(t, "nops")
	for i := 0; i < n; i++ {
		switch k := rapid.IntRange(0, 9).Draw(t, "op"); {
		case k <= 5:
			nf := rapid.IntRange(0, 8).Draw(t, "nfields")
			op := c18Op{Kind: "block", Cuts: drawCuts(t, "cuts"), Mute: -1}
			for j := 0; j < nf; j++ {
				op.Fields = append(op.Fields, drawField(t))
			}
			if nf > 0 && drawBool(t, "mute", 15) {
				op.Mute = rapid.IntRange(0, nf-1).Draw(t, "muteafter")
			}
			ops = append(ops, op)
		case k <= 7:
			sz := uint32([]int{0, 1, 32, 33, 100, 4096, 4097, 65536}[rapid.IntRange(0, 7).Draw(t, "size")])
			if drawBool(t, "randsize", 40) {
				sz = uint32(rapid.IntRange(0, 8192).Draw(t, "rsize"))
			}
			ops = append(ops, c18Op{Kind: "resize", Size: sz, Delay: rapid.IntRange(0, 2).Draw(t, "delay")})
		case k == 8:
			op := c18Op{Kind: "truncate", CutAt: rapid.IntRange(0, 200).Draw(t, "cutat")}
			nf := rapid.IntRange(1, 5).Draw(t, "nfields")
			for j := 0; j < nf; j++ {
				op.Fields = append(op.Fields, drawField(t))
			}
			ops = append(ops, op)
		case k == 9 && drawBool(t, "helper", 35):
			// the exported Huffman helpers share the package's pooled buffers with the decoders
			raw := rapid.SliceOfN(rapid.Byte(), 0, 40).Draw(t, "hraw")
			if drawBool(t, "hvalid", 60) {
				raw = rhpack.AppendHuffmanString(nil, drawToken(t, "htext", rapid.IntRange(1, 40).Draw(t, "htextlen")))
			}
			ops = append(ops, c18Op{Kind: "helper", Raw: raw})
		default:
			raw := rapid.SliceOfN(rapid.Byte(), 0, 60).Draw(t, "raw")
			if drawBool(t, "program", 60) {
				raw = drawHpackProgram(t)
			}
			ops = append(ops, c18Op{Kind: "garbage", Raw: raw, Cuts: drawCuts(t, "gcuts")})
		}
	}
	// 25%: the decoders get a string length limit (SetMaxStringLength) that every name and
	// value of the program just meets, and one block carries a field with a long name and a
	// value of exactly that length: a limit on single strings must not depend on how the block
	// is cut into writes
	maxStr := 0
	if drawBool(t, "maxstr", 25) {
		for _, op := range ops {
			for _, f := range op.Fields {
				maxStr = max(maxStr, len(f.Name), len(f.Value))
			}
		}
		maxStr = max(maxStr, rapid.IntRange(60, 160).Draw(t, "maxstrlen")) // (>= the long name added below)
		for i := range ops {
			if ops[i].Kind == "block" && ops[i].Mute < 0 {
				ops[i].Fields = append(ops[i].Fields, rhpack.HeaderField{Name: "x-long-name-0123456789-" + strings.Repeat("q", rapid.IntRange(0, 30).Draw(t, "maxstrname")), Value: strings.Repeat("#", maxStr)})
				if ops[i].Cuts == nil {
					ops[i].Cuts = []int{rapid.IntRange(1, 60).Draw(t, "maxstrcut"), 7, 1000}
				}
				break
			}
		}
	}
	c := &Case{}
	var sb bytes.Buffer
	fmt.Fprintf(&sb, "initial table %d; max string length %d;", initial, maxStr)
	for _, op := range ops {
		switch op.Kind {
		case "block":
			fmt.Fprintf(&sb, " block(%d fields, cuts %v, mute %d)", len(op.Fields), head(op.Cuts, 4), op.Mute)
		case "resize":
			fmt.Fprintf(&sb, " resize(%d, encoder learns after %d blocks)", op.Size, op.Delay)
		case "truncate":
			fmt.Fprintf(&sb, " truncate(%d fields, Close after %d bytes)", len(op.Fields), op.CutAt)
		case "garbage":
			fmt.Fprintf(&sb, " garbage(% x)", head(op.Raw, 12))
		case "helper":
			fmt.Fprintf(&sb, " huffman-helpers(% x)", head(op.Raw, 12))
		}
	}
	c.Summary = sb.String()
	c.DirectKey = c.Summary
	c.Direct = func(c *Case) []Violation {
		vs, st := runC18(initial, ops, maxStr)
		c.DirectStats = st
		return vs
	}
	return c
}

// drawHpackProgram: a byte string made of well-formed HPACK instructions that no encoder
// of this package would emit in that combination: table size updates anywhere, literals
// with incremental indexing that are larger than the table (RFC 7541 4.4: the table is
// emptied), index references into the dynamic table (valid, stale or beyond its end),
// indexed names, never-indexed literals, Huffman-flagged strings of arbitrary bytes.
func drawHpackProgram(t *rapid.T) []byte {
	var out []byte
	varint := func(prefixBits int, first byte, v int) {
		max := 1<<prefixBits - 1
		if v < max {
			out = append(out, first|byte(v))
			return
		}
		out = append(out, first|byte(max))
		v -= max
		for v >= 128 {
			out = append(out, byte(v%128+128))
			v /= 128
		}
		out = append(out, byte(v))
	}
	str := func(label string) {
		n := []int{0, 1, 3, 10, 30, 33, 70, 200}[rapid.IntRange(0, 7).Draw(t, label+"len")]
		h := byte(0)
		if drawBool(t, label+"huff", 15) {
			h = 0x80
		}
		varint(7, h, n)
		for i := 0; i < n; i++ {
			if h != 0 {
				out = append(out, byte(rapid.IntRange(0, 255).Draw(t, label+"hb")))
			} else {
				out = append(out, byte('a'+(i+n)%26))
			}
		}
	}
	idx := func(label string) int {
		return []int{1, 2, 15, 61, 62, 62, 63, 64, 70}[rapid.IntRange(0, 8).Draw(t, label)]
	}
	n := rapid.IntRange(1, 8).Draw(t, "ninstr")
	for i := 0; i < n; i++ {
		switch rapid.IntRange(0, 6).Draw(t, "instr") {
		case 0:
			varint(5, 0x20, []int{0, 1, 31, 32, 64, 100, 4096, 4097}[rapid.IntRange(0, 7).Draw(t, "szupd")])
		case 1, 2:
			// literal with incremental indexing, new name
			out = append(out, 0x40)
			str("n")
			str("v")
		case 3:
			// literal with incremental indexing, indexed name
			varint(6, 0x40, idx("iname"))
			str("v")
		case 4:
			varint(7, 0x80, idx("iref"))
		case 5:
			// literal without indexing / never indexed
			first := []byte{0x00, 0x10}[rapid.IntRange(0, 1).Draw(t, "noidx")]
			if drawBool(t, "noidxname", 50) {
				varint(4, first, idx("nname"))
			} else {
				out = append(out, first)
				str("n")
			}
			str("v")
		case 6:
			varint(7, 0x80, rapid.IntRange(0, 80).Draw(t, "anyidx"))
		}
	}
	return out
}

type emitRec struct {
	fields []rhpack.HeaderField
}

func feed(d interface{ Write([]byte) (int, error) }, b []byte, cuts []int) error {
	ci := 0
	for len(b) > 0 {
		n := len(b)
		if ci < len(cuts) && cuts[ci] < n {
			n = cuts[ci]
		}
		ci++
		if _, err := d.Write(b[:n]); err != nil {
			return err
		}
		b = b[n:]
	}
	return nil
}

func sameFields(a, b []rhpack.HeaderField) bool {
	if len(a) != len(b) {
		return false
	}
	for i := range a {
		if a[i] != b[i] {
			return false
		}
	}
	return true
}

var c18RaceOnce sync.Once

// c18ConcurrentFirstUse (race worker only): several independent encoder / decoder pairs
// take their first Huffman-coded block at the same time.  Codec instances share nothing a
// caller can see; whatever the package initialises lazily behind them must be safe for
// that.  A wrong result is a violation; an unsynchronised access is reported by the race
// detector whichever way the result comes out.
func c18ConcurrentFirstUse() (vs []Violation) {
	const n = 8
	errs := make([]string, n)
	var wg sync.WaitGroup
	start := make(chan struct{})
	for i := 0; i < n; i++ {
		wg.Add(1)
		go func(i int) {
			defer wg.Done()
			<-start
			var buf bytes.Buffer
			enc := rhpack.NewEncoder(&buf)
			want := []rhpack.HeaderField{{Name: "x-first-use", Value: fmt.Sprintf("www.example.com/%d/huffman-coded-value", i)}, {Name: ":path", Value: "/index.html"}}
			for _, f := range want {
				enc.WriteField(f)
			}
			var got []rhpack.HeaderField
			dec := rhpack.NewDecoder(4096, func(f rhpack.HeaderField) { got = append(got, f) })
			if _, err := dec.Write(buf.Bytes()); err != nil {
				errs[i] = err.Error()
				return
			}
			if err := dec.Close(); err != nil {
				errs[i] = err.Error()
				return
			}
			if !sameFields(got, want) {
				errs[i] = fmt.Sprintf("decoded %v, want %v", got, want)
			}
		}(i)
	}
	close(start)
	wg.Wait()
	for i, e := range errs {
		if e != "" {
			vs = append(vs, Violation{"concurrent_first_use", "concurrent_first_use", fmt.Sprintf("decoder %d of %d that took their first Huffman-coded block concurrently: %s", i, n, e)})
		}
	}
	return
}

func runC18(initial uint32, ops []c18Op, maxStr int) (vs []Violation, stats map[string]int) {
	stats = map[string]int{}
	if raceMode() {
		c18RaceOnce.Do(func() {
			vs = append(vs, c18ConcurrentFirstUse()...)
			stats["concurrent_first_use"]++
		})
		if len(vs) > 0 {
			return
		}
	}
	bad := func(class, format string, args ...any) {
		vs = append(vs, Violation{class, class, fmt.Sprintf(format, args...)})
	}
	defer func() {
		if e := recover(); e != nil {
			bad("panic", "hpack panicked: %v", e)
		}
	}()
	var wire bytes.Buffer
	enc := rhpack.NewEncoder(&wire)
	enc.SetMaxDynamicTableSizeLimit(initial)
	enc.SetMaxDynamicTableSize(initial)
	// decoder A: fragments as drawn; decoder B: whole blocks; decoder X: upstream reference
	var gotA, gotB []rhpack.HeaderField
	var gotX []xhpack.HeaderField
	mute := -1
	var decA, decB *rhpack.Decoder
	decA = rhpack.NewDecoder(initial, func(f rhpack.HeaderField) {
		gotA = append(gotA, f)
		if mute > 0 && len(gotA) >= mute {
			decA.SetEmitEnabled(false)
		}
	})
	decB = rhpack.NewDecoder(initial, func(f rhpack.HeaderField) {
		gotB = append(gotB, f)
		if mute > 0 && len(gotB) >= mute {
			decB.SetEmitEnabled(false)
		}
	})
	decX := xhpack.NewDecoder(initial, func(f xhpack.HeaderField) { gotX = append(gotX, f) })
	if maxStr > 0 {
		decA.SetMaxStringLength(maxStr)
		decB.SetMaxStringLength(maxStr)
		decX.SetMaxStringLength(maxStr)
		stats["programs_with_string_length_limit"]++
	}
	allowed := initial
	type pending struct {
		size  uint32
		after int
	}
	var pend []pending
	blocks := 0

	checkTables := func(where string) bool {
		ae, asz, amax, aallowed := decA.VerifDynTable()
		ee, esz, emax := enc.VerifDynTable()
		if asz > amax || amax > aallowed {
			bad("table_over_limit", "%s: decoder table size %d, max %d, allowed %d", where, asz, amax, aallowed)
			return false
		}
		var sum uint32
		for _, f := range ae {
			sum += uint32(len(f.Name) + len(f.Value) + 32)
		}
		if sum != asz {
			bad("table_size_accounting", "%s: decoder table holds %d octets of entries but accounts %d", where, sum, asz)
			return false
		}
		if !sameFields(ae, ee) || asz != esz || amax != emax {
			bad("tables_diverged", "%s: encoder table (%d entries, %d/%d octets) and decoder table (%d entries, %d/%d octets) differ", where, len(ee), esz, emax, len(ae), asz, amax)
			return false
		}
		return true
	}

	for oi, op := range ops {
		// the encoder learns about earlier limit changes
		var rest []pending
		for _, p := range pend {
			if p.after <= 0 {
				enc.SetMaxDynamicTableSizeLimit(p.size)
				enc.SetMaxDynamicTableSize(p.size)
				stats["size_limit_reached_encoder"]++
			} else {
				p.after--
				rest = append(rest, p)
			}
		}
		pend = rest
		switch op.Kind {
		case "resize":
			// the decoding side lowers / raises what it permits; the encoder hears later.
			// Until it does, the decoder keeps permitting the old value if that is larger
			// (a limit binds only once acknowledged).
			if op.Size > allowed {
				allowed = op.Size
				decA.SetAllowedMaxDynamicTableSize(allowed)
				decB.SetAllowedMaxDynamicTableSize(allowed)
				decX.SetAllowedMaxDynamicTableSize(allowed)
			}
			pend = append(pend, pending{op.Size, op.Delay})
			stats["resize_ops"]++
		case "block":
			wire.Reset()
			for _, f := range op.Fields {
				if err := enc.WriteField(f); err != nil {
					bad("encode_error", "op %d: WriteField(%q) failed: %v", oi, f.Name, err)
					return
				}
			}
			blk := append([]byte(nil), wire.Bytes()...)
			gotA, gotB, gotX = nil, nil, nil
			mute = op.Mute
			if mute == 0 {
				decA.SetEmitEnabled(false)
				decB.SetEmitEnabled(false)
			}
			errA := feed(decA, blk, op.Cuts)
			if errA == nil {
				errA = decA.Close()
			}
			_, errB := decB.Write(blk)
			if errB == nil {
				errB = decB.Close()
			}
			_, errX := decX.Write(blk)
			if errX == nil {
				errX = decX.Close()
			}
			decA.SetEmitEnabled(true)
			decB.SetEmitEnabled(true)
			if errA != nil {
				bad("roundtrip_error", "op %d: decoding what the encoder produced failed: %v", oi, errA)
				return
			}
			if op.Mute >= 0 {
				// emission was switched off part-way: the fields up to there were emitted, the rest
				// was decoded silently - the tables must have followed all the same
				if !sameFields(gotA, op.Fields[:op.Mute]) || !sameFields(gotB, op.Fields[:op.Mute]) {
					bad("muted_block_fields", "op %d: emission switched off after %d fields, emitted %d (fragmented) / %d (whole)", oi, op.Mute, len(gotA), len(gotB))
					return
				}
				stats["blocks_with_emission_switched_off"]++
			} else if !sameFields(gotA, op.Fields) {
				bad("roundtrip_fields", "op %d: decoded %d fields differ from the %d encoded (first decoded %v)", oi, len(gotA), len(op.Fields), head(gotA, 2))
				return
			}
			if errB != nil || (op.Mute < 0 && !sameFields(gotA, gotB)) {
				bad("fragment_dependence", "op %d: fragmented decoding (%v, %d fields) differs from whole-block decoding (%v, %d fields)", oi, errA, len(gotA), errB, len(gotB))
				return
			}
			// the upstream reference rejects a second size update at the start of a block
			// while entries remain (x/net hpack up to v0.59.0; D10) - its connection is
			// then poisoned; it takes no further part in this run
			if errX != nil {
				decX = xhpack.NewDecoder(0, func(f xhpack.HeaderField) {})
				stats["reference_decoder_rejected_double_size_update"]++
			}
			blocks++
			stats["blocks_round_tripped"]++
			if len(op.Cuts) > 0 {
				stats["blocks_fragmented"]++
			}
			// a size update travels with the next field: an empty block carries nothing
			if len(op.Fields) > 0 && !checkTables(fmt.Sprintf("after block %d", blocks)) {
				return
			}
		case "truncate":
			// a separate decoder pair: truncation poisons the connection
			wire.Reset()
			e2 := rhpack.NewEncoder(&wire)
			for _, f := range op.Fields {
				e2.WriteField(f)
			}
			blk := wire.Bytes()
			cut := op.CutAt
			if cut > len(blk) {
				cut = len(blk)
			}
			var got []rhpack.HeaderField
			d := rhpack.NewDecoder(4096, func(f rhpack.HeaderField) { got = append(got, f) })
			_, werr := d.Write(blk[:cut])
			cerr := d.Close()
			// reference: how many complete fields fit into the prefix
			var ref []rhpack.HeaderField
			dref := rhpack.NewDecoder(4096, func(f rhpack.HeaderField) { ref = append(ref, f) })
			dref.Write(blk)
			if len(got) > len(op.Fields) || !sameFields(got, op.Fields[:len(got)]) {
				bad("truncation_emitted_garbage", "block truncated after %d of %d bytes emitted fields that are not a prefix of the encoded list", cut, len(blk))
				return
			}
			// exact number of complete fields in the prefix, by re-encoding field by field
			wire.Reset()
			e3 := rhpack.NewEncoder(&wire)
			complete := 0
			exact := false
			for _, f := range op.Fields {
				e3.WriteField(f)
				if wire.Len() <= cut {
					complete++
				}
				if wire.Len() == cut {
					exact = true
				}
			}
			if cut == 0 {
				exact = true
			}
			if len(got) != complete {
				bad("truncation_field_count", "block truncated after %d bytes: %d fields emitted, %d complete fields arrived", cut, len(got), complete)
				return
			}
			if !exact && werr == nil && cerr == nil {
				bad("truncation_accepted", "block truncated inside a field (after %d of %d bytes) was accepted by Write and Close", cut, len(blk))
				return
			}
			if exact && (werr != nil || cerr != nil) {
				bad("boundary_rejected", "block ending exactly at a field boundary rejected: %v / %v", werr, cerr)
				return
			}
			stats["truncations"]++
			if !exact {
				stats["truncated_inside_a_field"]++
			}
			// Close "resets the Decoder to be reused again for a new header block", whatever it
			// returned: the same decoder now gets a complete block (from a fresh encoder, so it
			// refers to nothing the cut block may or may not have left in the table), one octet
			// at a time or in two pieces
			// ... first a short block (one small field), then the whole list again
			for _, next := range [][]rhpack.HeaderField{{{Name: ":method", Value: "GET"}}, op.Fields} {
				got = nil
				wire.Reset()
				e4 := rhpack.NewEncoder(&wire)
				for _, f := range next {
					e4.WriteField(f)
				}
				blk2 := append([]byte(nil), wire.Bytes()...)
				var werr2 error
				step := 1
				if cut%2 == 1 && len(blk2) > 1 {
					step = (len(blk2) + 1) / 2
				}
				for i := 0; i < len(blk2) && werr2 == nil; i += step {
					_, werr2 = d.Write(blk2[i:min(i+step, len(blk2))])
				}
				cerr2 := d.Close()
				if werr2 != nil || cerr2 != nil || !sameFields(got, next) {
					bad("decoder_unusable_after_truncation", "a decoder whose previous block was cut after %d of %d octets (Close: %v) did not decode the next, complete block of %d fields (%d octets): Write %v, Close %v, %d fields emitted", cut, len(blk), cerr, len(next), len(blk2), werr2, cerr2, len(got))
					return
				}
			}
			stats["decoder_reused_after_truncation"]++
		case "helper":
			var o1, o2 bytes.Buffer
			_, e1 := rhpack.HuffmanDecode(&o1, op.Raw)
			_, e2 := xhpack.HuffmanDecode(&o2, op.Raw)
			s1, e3 := rhpack.HuffmanDecodeToString(op.Raw)
			s2, e4 := xhpack.HuffmanDecodeToString(op.Raw)
			if (e1 == nil) != (e2 == nil) || (e3 == nil) != (e4 == nil) || (e1 == nil && o1.String() != o2.String()) || (e3 == nil && s1 != s2) {
				bad("huffman_helper_differs", "HuffmanDecode(% x): %q / %v, reference %q / %v; ToString %q / %v, reference %q / %v", op.Raw, o1.String(), e1, o2.String(), e2, s1, e3, s2, e4)
				return
			}
			stats["huffman_helper_calls"]++
		case "garbage":
			// arbitrary bytes: fragment independence and agreement with the reference
			var a, b []rhpack.HeaderField
			var x []xhpack.HeaderField
			dA := rhpack.NewDecoder(4096, func(f rhpack.HeaderField) { a = append(a, f) })
			dB := rhpack.NewDecoder(4096, func(f rhpack.HeaderField) { b = append(b, f) })
			dX := xhpack.NewDecoder(4096, func(f xhpack.HeaderField) { x = append(x, f) })
			eA := feed(dA, op.Raw, op.Cuts)
			if eA == nil {
				eA = dA.Close()
			}
			_, eB := dB.Write(op.Raw)
			if eB == nil {
				eB = dB.Close()
			}
			_, eX := dX.Write(op.Raw)
			if eX == nil {
				eX = dX.Close()
			}
			if (eA == nil) != (eB == nil) || !sameFields(a, b) {
				bad("fragment_dependence", "arbitrary block % x: fragmented (%v, %d fields) vs whole (%v, %d fields)", op.Raw, eA, len(a), eB, len(b))
				return
			}
			if eX != nil && eB == nil && strings.Contains(eX.Error(), "MUST occur at the beginning") {
				stats["reference_decoder_rejected_double_size_update"]++
				break
			}
			if (eB == nil) != (eX == nil) || len(b) != len(x) {
				bad("differs_from_reference", "arbitrary block % x: decoder under test (%v, %d fields) vs reference (%v, %d fields)", op.Raw, eB, len(b), eX, len(x))
				return
			}
			for i := range b {
				if b[i].Name != x[i].Name || b[i].Value != x[i].Value || b[i].Sensitive != x[i].Sensitive {
					bad("differs_from_reference", "arbitrary block % x: field %d differs from the reference decoder", op.Raw, i)
					return
				}
			}
			_, sz, mx, al := dA.VerifDynTable()
			if sz > mx || mx > al {
				bad("table_over_limit", "arbitrary block % x: table size %d max %d allowed %d", op.Raw, sz, mx, al)
				return
			}
			if eB == nil {
				stats["arbitrary_accepted"]++
			} else {
				stats["arbitrary_rejected"]++
			}
		}
	}
	return
}

func init() {
	register(&CheckDef{ID: "C18", Level: "exploration", Engine: "B", Draw: drawC18,
		Rule: "engine B, component level (the proxy does not import pkg/http2/hpack): 1-12 operations on an encoder / decoder pair: header blocks (0-8 fields from a small name/value alphabet so that indexing, eviction and Huffman coding are exercised; any bytes in values; values larger than the table; sensitive fields) delivered to the decoder in fragments cut at seeded offsets (also 1 byte at a time), table-size limits (0, 1, 32, 33, 4096, 4097, 65536, random) flowing back to the encoder after 0-2 further blocks, truncation (Close after k bytes of a block; the same decoder then decodes a further complete block), arbitrary byte strings. Oracle: decoded == encoded (order, sensitivity), fragmented == whole-block decoding, encoder and decoder dynamic tables identical and within the permitted size after every block, truncation inside a field rejected with only complete fields emitted, no panic; arbitrary bytes: same result as x/net hpack v0.19.0 (differential, sampled - a pure function of the input). Distinct: distinct operation sequences."})
}

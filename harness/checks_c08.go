package harness

// C08: requests and responses pass through the proxy unchanged.

import (
	"bytes"
	"fmt"
	"sort"
	"strings"
	"time"

	"pgregory.net/rapid"
)

type c08Req struct {
	Spec      ReqSpec
	Chunked   []int // h1: chunk sizes (nil: Content-Length)
	DataSizes []int // h2: DATA frame sizes
	Pads      []int // h2: padding of the i-th DATA frame counted from the END of the body (-1: none)
	Trailers  [][2]string
	HopNames  []string // header names nominated by Connection (must not arrive)
	Stream    uint32
	Resp      *RespPlan
	Expect    bool // h1: the request carries Expect: 100-continue and its body waits for the go-ahead
}

type c08Aux struct {
	Reqs      map[int][]*c08Req // client -> requests
	Preserve  bool
	Canceller bool
	Pipelined int
	Expect100 int
	Upgrade   *c08Upgrade
}

// c08Upgrade: an HTTP/1.1 client that upgrades the protocol through the proxy and sends opaque
// bytes through the tunnel, which the back-end echoes.
type c08Upgrade struct {
	CI   int
	Spec ReqSpec
	Sent []byte
}

var c08Methods = []string{"GET", "POST", "PUT", "DELETE", "PATCH", "OPTIONS", "HEAD"}
var c08Status = []int{200, 201, 202, 204, 206, 301, 302, 304, 400, 403, 404, 410, 418, 500, 502, 503}

func drawToken(t *rapid.T, label string, n int) string {
	const alpha = "abcdefghijklmnopqrstuvwxyz0123456789-_.~"
	b := make([]byte, n)
	for i := range b {
		b[i] = alpha[rapid.IntRange(0, len(alpha)-1).Draw(t, label)]
	}
	return string(b)
}

func drawPathQuery(t *rapid.T) string {
	segs := rapid.IntRange(1, 4).Draw(t, "segs")
	var sb strings.Builder
	if drawBool(t, "dblslash", 12) {
		// an empty first segment: the path starts with "//" (legal; must not be read as an authority)
		sb.WriteByte('/')
	}
	for i := 0; i < segs; i++ {
		sb.WriteByte('/')
		switch rapid.IntRange(0, 5).Draw(t, "segkind") {
		case 0:
			sb.WriteString("a%20b")
		case 1:
			sb.WriteString("x%2Fy")
		case 2:
			sb.WriteString("%C3%A9t%C3%A9")
		case 3:
			sb.WriteString("seg:@!$&'()*+,=" + drawToken(t, "seg", 2))
		default:
			sb.WriteString(drawToken(t, "seg", rapid.IntRange(1, 12).Draw(t, "seglen")))
		}
	}
	if drawBool(t, "trailslash", 20) {
		sb.WriteByte('/')
	}
	if drawBool(t, "query", 60) {
		sb.WriteByte('?')
		n := rapid.IntRange(0, 4).Draw(t, "nq")
		for i := 0; i < n; i++ {
			if i > 0 {
				sb.WriteByte('&')
			}
			switch rapid.IntRange(0, 4).Draw(t, "qkind") {
			case 0:
				sb.WriteString("k=" + drawToken(t, "qv", 5))
			case 1:
				sb.WriteString("empty=")
			case 2:
				sb.WriteString("flag")
			case 3:
				sb.WriteString("e=a%20b%26c+d")
			default:
				sb.WriteString("k=" + drawToken(t, "qv", 3) + "&k=" + drawToken(t, "qv", 3))
			}
		}
	}
	return sb.String()
}

func drawE2EHeaders(t *rapid.T, prefix string) [][2]string {
	var h [][2]string
	n := rapid.IntRange(0, 6).Draw(t, "nhdr")
	for i := 0; i < n; i++ {
		name := fmt.Sprintf("%s-%s", prefix, drawToken(t, "hname", rapid.IntRange(1, 6).Draw(t, "hnlen")))
		switch rapid.IntRange(0, 5).Draw(t, "hkind") {
		case 0:
			h = append(h, [2]string{name, ""})
		case 1:
			// repeated
			k := rapid.IntRange(2, 4).Draw(t, "hrep")
			for j := 0; j < k; j++ {
				h = append(h, [2]string{name, fmt.Sprintf("v%d,%s", j, drawToken(t, "hv", 3))})
			}
		case 2:
			h = append(h, [2]string{name, strings.Repeat("L", rapid.IntRange(1000, 6000).Draw(t, "hlarge"))})
		case 3:
			h = append(h, [2]string{name, "a b\tc;d=\"e\", f"})
		default:
			h = append(h, [2]string{name, drawToken(t, "hv", rapid.IntRange(1, 20).Draw(t, "hvlen"))})
		}
	}
	return h
}

func drawBodySize(t *rapid.T) int {
	switch rapid.IntRange(0, 9).Draw(t, "bodyclass") {
	case 0, 1, 2:
		return 0
	case 3:
		return 1
	case 4:
		return rapid.IntRange(2, 2000).Draw(t, "bsmall")
	case 5:
		return []int{16383, 16384, 16385, 65535, 65536}[rapid.IntRange(0, 4).Draw(t, "bedge")]
	case 6, 7:
		return rapid.IntRange(2000, 200000).Draw(t, "bmid")
	case 8:
		return rapid.IntRange(200000, 900000).Draw(t, "bbig")
	default:
		return rapid.IntRange(1<<20, 3<<20).Draw(t, "bhuge")
	}
}

func drawPieces(t *rapid.T, total int, label string) []int {
	var out []int
	n := rapid.IntRange(0, 6).Draw(t, label+"_n")
	for i := 0; i < n; i++ {
		out = append(out, rapid.IntRange(1, 20000).Draw(t, label))
	}
	return out
}

func drawC08(t *rapid.T) *Case {
	p := &Plan{Check: "C08", Backend: BackendPlan{Resp: map[string]*RespPlan{}}, Budget: 60000}
	aux := &c08Aux{Reqs: map[int][]*c08Req{}}
	// the reverse proxy's flush interval: none (only streamed responses are flushed, at once),
	// the flag's default, a short period (a timer goroutine flushes through maxLatencyWriter
	// while the handler copies - possible since lock waits count as blocked, DESIGN 15.5b),
	// or immediate
	switch rapid.IntRange(0, 9).Draw(t, "flushinterval") {
	case 0, 1, 2, 3, 4:
		p.Args = []string{"-reverse-proxy-flush-interval", "0s"}
	case 5, 6:
		p.Args = nil
	case 7, 8:
		p.Args = []string{"-reverse-proxy-flush-interval", []string{"1ms", "20ms", "3s"}[rapid.IntRange(0, 2).Draw(t, "flushperiod")]}
	default:
		p.Args = []string{"-reverse-proxy-flush-interval", "-1ns"}
	}
	if drawBool(t, "preserve", 50) {
		aux.Preserve = true
		p.Args = append(p.Args, "-preserve-host")
	}
	if drawBool(t, "fwdprefix", 15) {
		// a forward URL with a path of its own: the back-end sees that prefix joined with the path
		// the client sent, percent-escapes untouched (wave 13, C08-w)
		p.ForwardPrefix = []string{"/base", "/svc/v1", "/a%20b"}[rapid.IntRange(0, 2).Draw(t, "fwdprefixv")]
	}
	nc := rapid.IntRange(1, 3).Draw(t, "nclients")
	// focus (12%): cancelled downloads next to streamed multi-frame downloads, frame writes
	// held in flight by the controller - what is left behind by a cancelled stream (pooled
	// objects, queued frames, write results) must not leak into another exchange
	focus := drawBool(t, "cancelfocus", 12)
	// aged connection (8%): a handshake timeout is configured and the first client keeps its
	// connection in use beyond it (HTTP/2: pause between two requests; HTTP/1.1: a first
	// answer that takes longer) - nothing of the handshake's deadlines may stay on the connection
	aged := !focus && drawBool(t, "aged", 8)
	if aged {
		p.Args = append(p.Args, "-timeout-tls-handshake", "1s")
		if drawBool(t, "agednowt", 60) {
			// without a write timeout nothing re-arms the connection's write deadline later on
			p.Args = append(p.Args, "-timeout-http-write", "0s")
		}
	}
	// slow back-end connections (6%): every dial of the proxy's transport takes 6-30 s, longer
	// than a configured -timeout-http-read of 5 s and shorter than the write timeout.  HTTP/2
	// clients only: their uploads fit the server's windows and have arrived in full, END_STREAM
	// included, before the clock moves - the read timeout has nothing left to cut, the request is
	// forwarded intact once the connection stands (wave 12, C08-t).  (An HTTP/1.1 body is read
	// from the connection on demand, after the dial: there the timeout legitimately fails it.)
	slowDial := !focus && !aged && drawBool(t, "slowdial", 6)
	if slowDial {
		p.Args = append(p.Args, "-timeout-http-read", "5s")
		p.Faults.SlowDial = time.Duration(rapid.IntRange(6000, 30000).Draw(t, "slowdialms")) * time.Millisecond
	}
	var metas []*ClientMeta
	for ci := 0; ci < nc; ci++ {
		proto := []string{"h2", "h1"}[rapid.IntRange(0, 1).Draw(t, "proto")]
		if focus || slowDial {
			proto = "h2"
		}
		cp := &ClientPlan{ID: ci, Addr: fmt.Sprintf("198.51.100.%d:%d", 10+ci, 32000+ci), Hello: fixedHello(proto)}
		m := &ClientMeta{Proto: proto}
		nr := rapid.IntRange(1, 4).Draw(t, "nreq")
		enc := NewHEnc()
		cp.Steps = append(cp.Steps, Step{Kind: "connect"})
		if proto == "h2" {
			// windows large enough never to block a response (see DESIGN 3.2)
			pre := append([]byte(ClientPreface), FramesBytes(SettingsFrame(Setting{4, 1 << 30}), WindowUpdateFrame(0, 1<<30))...)
			cp.Steps = append(cp.Steps, Step{Kind: "write", Pieces: [][]byte{pre}})
		}
		var ids []uint32
		h2Uploaded := 0
		for ri := 0; ri < nr; ri++ {
			tag := fmt.Sprintf("c%d-r%d", ci, ri)
			rq := &c08Req{}
			rq.Spec = ReqSpec{Tag: tag, Method: c08Methods[rapid.IntRange(0, len(c08Methods)-1).Draw(t, "method")], Path: drawPathQuery(t), Host: drawReqHost(t, ci)}
			if drawBool(t, "hostport", 20) {
				rq.Spec.Host += ":8443"
			}
			rq.Spec.Header = drawE2EHeaders(t, "x-req")
			if drawBool(t, "ua", 50) {
				rq.Spec.Header = append(rq.Spec.Header, [2]string{"User-Agent", "verif/" + drawToken(t, "ua", 3)})
			}
			if drawBool(t, "cookie", 30) {
				rq.Spec.Header = append(rq.Spec.Header, [2]string{"Cookie", "a=1; b=" + drawToken(t, "ck", 4)})
			}
			if drawBool(t, "hop", 30) {
				hop := "x-hop-" + drawToken(t, "hop", 3)
				rq.HopNames = append(rq.HopNames, hop)
				rq.Spec.Header = append(rq.Spec.Header, [2]string{hop, "must-not-pass"})
				if proto == "h1" {
					rq.Spec.Header = append(rq.Spec.Header, [2]string{"Connection", hop}, [2]string{"Keep-Alive", "timeout=5"}, [2]string{"Proxy-Connection", "keep-alive"})
					rq.HopNames = append(rq.HopNames, "Keep-Alive", "Proxy-Connection")
				} else {
					// HTTP/2 forbids connection-specific fields; only proxy-* may appear
					rq.HopNames = rq.HopNames[:0]
					rq.Spec.Header = rq.Spec.Header[:len(rq.Spec.Header)-1]
					rq.Spec.Header = append(rq.Spec.Header, [2]string{"proxy-authorization", "Basic Zm9v"})
					rq.HopNames = append(rq.HopNames, "Proxy-Authorization")
				}
			}
			hasBody := rq.Spec.Method != "GET" && rq.Spec.Method != "HEAD" && rq.Spec.Method != "OPTIONS" && rq.Spec.Method != "DELETE"
			if !hasBody && rq.Spec.Method != "HEAD" && drawBool(t, "bodyonbodiless", 20) {
				// content on a method that usually has none (RFC 9110 9.3.1 / 9.3.5 / 9.3.7 allow
				// it): forwarded like any other, with or without Content-Length
				hasBody = true
			}
			if hasBody {
				sz := drawBodySize(t)
				if proto == "h2" {
					// the raw client does not pace itself by the server's windows (1 MiB per
					// stream and per connection): keep what may be in flight below them
					if sz > 900000-h2Uploaded {
						sz = 900000 - h2Uploaded
					}
					h2Uploaded += sz
				}
				rq.Spec.Body = bodyBytes(tag, sz)
				if len(rq.Spec.Body) > 0 && drawBool(t, "reqtrailers", 25) {
					rq.Trailers = [][2]string{{"x-req-trailer", "t-" + drawToken(t, "tr", 4)}, {"x-req-trailer2", ""}}
				}
			}
			// response
			rp := &RespPlan{Status: c08Status[rapid.IntRange(0, len(c08Status)-1).Draw(t, "status")]}
			rp.Header = drawE2EHeaders(t, "x-resp")
			if drawBool(t, "hdrwalk", 8) {
				// a response header block whose encoded size lies around 16384 octets (one
				// frame's worth): '#' is not shortened by Huffman coding, so the block is
				// the value's length plus a few dozen octets, and the draw walks it over
				// the boundary between "fits one HEADERS frame" and "needs a CONTINUATION"
				rp.Header = [][2]string{{"X-Pad", strings.Repeat("#", 16384-rapid.IntRange(20, 95).Draw(t, "hdrwalklen"))}}
			}
			if drawBool(t, "setcookie", 30) {
				rp.Header = append(rp.Header, [2]string{"Set-Cookie", "s=1; Path=/"}, [2]string{"Set-Cookie", "t=2; HttpOnly"})
			}
			if drawBool(t, "resphop", 20) {
				rp.Header = append(rp.Header, [2]string{"Keep-Alive", "timeout=9"}, [2]string{"Proxy-Authenticate", "Basic"})
			}
			noBody := rp.Status == 204 || rp.Status == 304 || rq.Spec.Method == "HEAD"
			if !noBody {
				rp.Body = bodyBytes("resp-"+tag, drawBodySize(t))
				if drawBool(t, "respstream", 40) {
					rp.Chunks = drawPieces(t, len(rp.Body), "rchunk")
				}
				if focus {
					rp.Body = bodyBytes("resp-"+tag, rapid.IntRange(70000, 260000).Draw(t, "focusbody"))
					rp.Chunks = []int{30000, 30000, 30000, 30000, 30000, 30000}
				}
				if len(rp.Body) > 0 && drawBool(t, "resptrailers", 25) {
					// announced in the Trailer header, unannounced (late), or both; a trailer may have two values
					ann := [][2]string{{"X-Resp-Trailer", "rt-" + drawToken(t, "rt", 4)}}
					if drawBool(t, "rt2v", 25) {
						ann = append(ann, [2]string{"X-Resp-Trailer", "rt2-" + drawToken(t, "rt2", 3)})
					}
					late := [][2]string{{"X-Late-Trailer", "lt-" + drawToken(t, "lt", 4)}}
					switch rapid.IntRange(0, 3).Draw(t, "rtmode") {
					case 0, 1:
						rp.Trailer = ann
					case 2:
						rp.LateTrailer = late
					case 3:
						rp.Trailer, rp.LateTrailer = ann, late
					}
				}
			}
			if drawBool(t, "early103", 10) {
				// the back-end sends 103 (Early Hints) before the final response
				rp.Early = [][2]string{{"Link", "</s-" + drawToken(t, "el", 3) + ".css>; rel=preload"}, {"X-Early", drawToken(t, "ex", 4)}}
			}
			if aged && ci == 0 && ri == 0 && proto == "h1" {
				rp.DelayMS = 1700
			}
			p.Backend.Resp[tag] = rp
			rq.Resp = rp
			aux.Reqs[ci] = append(aux.Reqs[ci], rq)
			m.Reqs = append(m.Reqs, rq.Spec)
			if proto == "h2" {
				id := uint32(2*ri + 1)
				rq.Stream = id
				ids = append(ids, id)
				rq.DataSizes = drawPieces(t, len(rq.Spec.Body), "dsz")
				if drawBool(t, "datapad", 35) {
					for i := 0; i < 3; i++ {
						rq.Pads = append(rq.Pads, rapid.IntRange(-1, 40).Draw(t, "padlen"))
					}
				}
				fs := c08H2Frames(enc, id, rq)
				// write in one or several TLS writes
				cut := rapid.IntRange(1, len(fs)).Draw(t, "wcut")
				cp.Steps = append(cp.Steps, Step{Kind: "write", Pieces: [][]byte{FramesBytes(fs[:cut]...)}})
				if cut < len(fs) {
					cp.Steps = append(cp.Steps, Step{Kind: "write", Pieces: [][]byte{FramesBytes(fs[cut:]...)}})
				}
				if (aged && ci == 0 && ri == 0) || drawBool(t, "sequential", 40) {
					cp.Steps = append(cp.Steps, Step{Kind: "h2await", Streams: []uint32{id}})
				}
				if aged && ci == 0 && ri == 0 {
					cp.Steps = append(cp.Steps, Step{Kind: "sleep", DelayMS: 1700})
				}
			} else {
				withCL := drawBool(t, "withcl", 60) || len(rq.Trailers) == 0 && len(rq.Spec.Body) == 0
				if len(rq.Trailers) > 0 {
					withCL = false
				}
				if !withCL {
					rq.Chunked = drawPieces(t, len(rq.Spec.Body), "chunk")
					if rq.Chunked == nil {
						rq.Chunked = []int{}
					}
				}
				if len(rq.Spec.Body) > 0 && ri == nr-1 && !aged && drawBool(t, "expect100", 35) {
					// Expect: 100-continue on the connection's last request: head first, the body
					// when the go-ahead arrives
					rq.Expect = true
					raw := c08H1Bytes(rq)
					k := bytes.Index(raw, []byte("\r\n\r\n")) + 4
					cp.Steps = append(cp.Steps, Step{Kind: "h1expect", Pieces: [][]byte{raw[:k], raw[k:]}, Tag: tag, Method: rq.Spec.Method})
					aux.Expect100++
					continue
				}
				raw := c08H1Bytes(rq)
				pieces := [][]byte{raw}
				if drawBool(t, "h1pieces", 40) && len(raw) > 10 {
					c1 := rapid.IntRange(1, len(raw)-1).Draw(t, "h1cut")
					pieces = [][]byte{raw[:c1], raw[c1:]}
				}
				cp.Steps = append(cp.Steps, Step{Kind: "h1req", Pieces: pieces, Tag: tag, Method: rq.Spec.Method})
			}
		}
		if proto == "h2" {
			cp.Steps = append(cp.Steps, Step{Kind: "h2await", Streams: ids})
		} else if drawBool(t, "pipeline", 25) {
			// HTTP/1.1 pipelining: two (or more) requests written before the first answer is read
			var out []Step
			for i := 0; i < len(cp.Steps); i++ {
				st := cp.Steps[i]
				if st.Kind == "h1req" && i+1 < len(cp.Steps) && cp.Steps[i+1].Kind == "h1req" {
					nx := cp.Steps[i+1]
					out = append(out, Step{Kind: "write", Pieces: append(append([][]byte{}, st.Pieces...), nx.Pieces...)},
						Step{Kind: "h1recv", Tag: st.Tag, Method: st.Method}, Step{Kind: "h1recv", Tag: nx.Tag, Method: nx.Method})
					i++
					aux.Pipelined++
					continue
				}
				out = append(out, st)
			}
			cp.Steps = out
		}
		cp.Steps = append(cp.Steps, Step{Kind: "close"})
		if drawBool(t, "seg", 25) {
			cp.Seg = SegPlan{Profile: "rand", Until: 1 << 30}
		}
		if drawBool(t, "segdown", 25) {
			cp.SegDown = "rand"
		}
		p.Clients = append(p.Clients, cp)
		metas = append(metas, m)
	}
	if focus || (!slowDial && drawBool(t, "canceller", 30)) {
		// a further HTTP/2 client that cancels large downloads part-way (its exchanges are not
		// compared): whatever that leaves behind must not touch the other exchanges
		ci := nc
		cp := &ClientPlan{ID: ci, Addr: fmt.Sprintf("198.51.100.%d:%d", 10+ci, 32000+ci), Hello: fixedHello("h2")}
		enc := NewHEnc()
		pre := append([]byte(ClientPreface), FramesBytes(SettingsFrame(Setting{4, 1 << 30}), WindowUpdateFrame(0, 1<<30))...)
		cp.Steps = append(cp.Steps, Step{Kind: "connect"}, Step{Kind: "write", Pieces: [][]byte{pre}})
		k := rapid.IntRange(1, 4).Draw(t, "ncancel")
		if focus {
			k = 4
		}
		for ri := 0; ri < k; ri++ {
			tag := fmt.Sprintf("c%d-x%d", ci, ri)
			id := uint32(2*ri + 1)
			r := ReqSpec{Tag: tag, Method: "GET", Path: "/cancelled/" + tag, Host: "cancel.verif.test"}
			body := bodyBytes("resp-"+tag, rapid.IntRange(40000, 400000).Draw(t, "cancelbody"))
			p.Backend.Resp[tag] = &RespPlan{Status: 200, Body: body, Chunks: []int{20000, 20000, 40000}}
			cp.Steps = append(cp.Steps, Step{Kind: "write", Pieces: [][]byte{FramesBytes(H2RequestFrames(enc, id, r, nil, nil, nil, nil)...)}})
			cp.Steps = append(cp.Steps, Step{Kind: "write", Pieces: [][]byte{FramesBytes(RSTFrame(id, ErrCancel))}})
		}
		cp.Steps = append(cp.Steps, Step{Kind: "write", Pieces: [][]byte{FramesBytes(PingFrame(false, [8]byte{0xfc}))}}, Step{Kind: "h2ping"}, Step{Kind: "close"})
		p.Clients = append(p.Clients, cp)
		metas = append(metas, &ClientMeta{Proto: "h2", Kind: "canceller"})
		aux.Canceller = true
	}
	if !focus && !slowDial && drawBool(t, "upgrader", 20) {
		// a further HTTP/1.1 client that upgrades the protocol (101 through the reverse proxy) and
		// then exchanges opaque bytes with the back-end through the tunnel
		ci := len(p.Clients)
		cp := &ClientPlan{ID: ci, Addr: fmt.Sprintf("198.51.100.%d:%d", 10+ci, 32000+ci), Hello: fixedHello("h1")}
		up := ReqSpec{Tag: fmt.Sprintf("c%d-up", ci), Method: "GET", Path: "/ws/" + drawToken(t, "uppath", 5), Host: "up.verif.test"}
		up.Header = append(drawE2EHeaders(t, "x-up"), [2]string{"Connection", "Upgrade"}, [2]string{"Upgrade", "verif-echo"})
		cp.Steps = append(cp.Steps, Step{Kind: "connect"}, Step{Kind: "h1req", Pieces: [][]byte{up.H1()}, Tag: up.Tag})
		u := &c08Upgrade{CI: ci, Spec: up}
		for k, n := 0, rapid.IntRange(1, 4).Draw(t, "upmsgs"); k < n; k++ {
			ln := []int{1, 17, 1000, 16384, 40000}[rapid.IntRange(0, 4).Draw(t, "upmsglen")]
			b := bodyBytes(fmt.Sprintf("tunnel-%d-%d", ci, k), ln)
			if drawBool(t, "upbinary", 50) {
				for i := range b {
					b[i] ^= byte(i * 131)
				}
			}
			u.Sent = append(u.Sent, b...)
			cp.Steps = append(cp.Steps, Step{Kind: "tunnel", Pieces: [][]byte{b}})
		}
		cp.Steps = append(cp.Steps, Step{Kind: "close"})
		if drawBool(t, "upseg", 40) {
			cp.Seg = SegPlan{Profile: "rand", Until: 1 << 30}
			cp.SegDown = "rand"
		}
		p.Clients = append(p.Clients, cp)
		metas = append(metas, &ClientMeta{Proto: "h1", Kind: "upgrader"})
		aux.Upgrade = u
	}
	p.BackendKeepAlive = drawBool(t, "beka", 40)
	p.Fences = drawBool(t, "fences", 25)
	p.WriteFences = focus || drawBool(t, "writefences", 30)
	// 10%: the serve loop held back by the controller while an asynchronous write is in flight
	p.ServeFences = drawBool(t, "servefences", 10)
	// (until wave 7 held writes went with Content-Length responses only: a flush through
	// maxLatencyWriter holds its mutex across the held write, and a wait for that mutex kept
	// the bubble from becoming quiescent; lock waits count as blocked now, DESIGN 15.5b)
	p.SchedKind = []string{"", "rr", "priority", "random"}[rapid.IntRange(0, 3).Draw(t, "sched")]
	p.Tape, p.Tail = drawTape(t, 128)
	c := &Case{Plan: p, Metas: metas, Oracle: oracleC08, Aux: aux}
	var sb strings.Builder
	fmt.Fprintf(&sb, "args=%v", p.Args)
	for ci := 0; ci < nc; ci++ {
		fmt.Fprintf(&sb, " | c%d(%s):", ci, metas[ci].Proto)
		for _, rq := range aux.Reqs[ci] {
			fmt.Fprintf(&sb, " %s %s hdrs=%d body=%d trailers=%d -> %d body=%d chunks=%d trailers=%d+%d;", rq.Spec.Method, rq.Spec.Path, len(rq.Spec.Header), len(rq.Spec.Body), len(rq.Trailers), rq.Resp.Status, len(rq.Resp.Body), len(rq.Resp.Chunks), len(rq.Resp.Trailer), len(rq.Resp.LateTrailer))
		}
	}
	c.Summary = sb.String()
	return c
}

func c08H2Frames(enc *HEnc, id uint32, rq *c08Req) []Frame {
	r := rq.Spec
	fields := [][2]string{{":method", r.Method}, {":scheme", "https"}, {":authority", r.Host}, {":path", r.Path}, {"x-tag", r.Tag}}
	for _, kv := range r.Header {
		if strings.EqualFold(kv[0], "cookie") {
			// HTTP/2 clients may split cookies into crumbs (RFC 9113 8.2.3)
			for _, crumb := range strings.Split(kv[1], "; ") {
				fields = append(fields, [2]string{"cookie", crumb})
			}
			continue
		}
		fields = append(fields, [2]string{strings.ToLower(kv[0]), kv[1]})
	}
	if len(rq.Trailers) > 0 {
		fields = append(fields, [2]string{"trailer", "x-req-trailer, x-req-trailer2"})
	} else if len(r.Body) > 0 && len(rq.DataSizes)%2 == 0 {
		fields = append(fields, [2]string{"content-length", fmt.Sprint(len(r.Body))})
	}
	noMore := len(r.Body) == 0 && len(rq.Trailers) == 0
	fs := HeadersFrames(id, enc.Block(fields), noMore, nil, -1, nil)
	rest := r.Body
	i := 0
	var sizes []int
	for len(rest) > 0 {
		k := 16000
		if i < len(rq.DataSizes) {
			k = rq.DataSizes[i]
		}
		i++
		if k > 16000 {
			k = 16000
		}
		if k > len(rest) {
			k = len(rest)
		}
		sizes = append(sizes, k)
		rest = rest[k:]
	}
	rest = r.Body
	for j, k := range sizes {
		fromEnd := len(sizes) - 1 - j
		pad := -1
		if fromEnd < len(rq.Pads) {
			pad = rq.Pads[fromEnd] // also the last frames of the body may be padded (even with 0 bytes)
		}
		last := j == len(sizes)-1 && len(rq.Trailers) == 0
		fs = append(fs, DataFrame(id, rest[:k], last, pad))
		rest = rest[k:]
	}
	if len(rq.Trailers) > 0 {
		fs = append(fs, HeadersFrames(id, enc.Block(rq.Trailers), true, nil, -1, nil)...)
	}
	return fs
}

func c08H1Bytes(rq *c08Req) []byte {
	r := rq.Spec
	var b bytes.Buffer
	fmt.Fprintf(&b, "%s %s HTTP/1.1\r\nHost: %s\r\nX-Tag: %s\r\n", r.Method, r.Path, r.Host, r.Tag)
	for _, kv := range r.Header {
		fmt.Fprintf(&b, "%s: %s\r\n", kv[0], kv[1])
	}
	if rq.Expect {
		b.WriteString("Expect: 100-continue\r\n")
	}
	if rq.Chunked == nil {
		if len(r.Body) > 0 || r.Method == "POST" || r.Method == "PUT" || r.Method == "PATCH" {
			fmt.Fprintf(&b, "Content-Length: %d\r\n", len(r.Body))
		}
		b.WriteString("\r\n")
		b.Write(r.Body)
		return b.Bytes()
	}
	if len(rq.Trailers) > 0 {
		b.WriteString("Trailer: X-Req-Trailer, X-Req-Trailer2\r\n")
	}
	b.WriteString("Transfer-Encoding: chunked\r\n\r\n")
	rest := r.Body
	i := 0
	for len(rest) > 0 {
		k := 8192
		if i < len(rq.Chunked) {
			k = rq.Chunked[i]
		}
		i++
		if k > len(rest) {
			k = len(rest)
		}
		fmt.Fprintf(&b, "%x\r\n", k)
		b.Write(rest[:k])
		b.WriteString("\r\n")
		rest = rest[k:]
	}
	b.WriteString("0\r\n")
	for _, kv := range rq.Trailers {
		fmt.Fprintf(&b, "%s: %s\r\n", kv[0], kv[1])
	}
	b.WriteString("\r\n")
	return b.Bytes()
}

var hopByHop = map[string]bool{"connection": true, "keep-alive": true, "proxy-authenticate": true, "proxy-authorization": true, "proxy-connection": true, "te": true, "trailer": true, "transfer-encoding": true, "upgrade": true}

// valuesCI returns the values of a header name (case-insensitive) in order.
func valuesCI(h map[string][]string, name string) []string {
	var out []string
	var keys []string
	for k := range h {
		if strings.EqualFold(k, name) {
			keys = append(keys, k)
		}
	}
	sort.Strings(keys)
	for _, k := range keys {
		out = append(out, h[k]...)
	}
	return out
}

func sentValues(h [][2]string, name string) []string {
	var out []string
	for _, kv := range h {
		if strings.EqualFold(kv[0], name) {
			out = append(out, kv[1])
		}
	}
	return out
}

func sameStrings(a, b []string) bool {
	if len(a) != len(b) {
		return false
	}
	for i := range a {
		if a[i] != b[i] {
			return false
		}
	}
	return true
}

func oracleC08(w *World, c *Case) {
	aux := c.Aux.(*c08Aux)
	w.Drain(20000)
	by := w.ReqsByTag()
	for ci := range c.Metas {
		cl := w.Clients[ci]
		if !cl.HandshakeOK {
			w.Violate("harness", "harness", "fixed hello did not handshake: %s", cl.HandshakeErr)
			continue
		}
		for ri, rq := range aux.Reqs[ci] {
			tag := rq.Spec.Tag
			where := fmt.Sprintf("%s (%s) %s %s", tag, protoOf(w, ci), rq.Spec.Method, rq.Spec.Path)
			brs := by[tag]
			if len(brs) != 1 {
				w.Violate("request_not_forwarded_once", "request_not_forwarded_once", "%s: reached the back-end %d times | %s", where, len(brs), c.Summary)
				continue
			}
			br := brs[0]
			// ---- request direction
			if br.Method != rq.Spec.Method {
				w.Violate("method_altered", "method_altered", "%s: back-end saw method %q", where, br.Method)
			}
			if br.RequestURI != c.Plan.ForwardPrefix+rq.Spec.Path {
				w.Violate("path_or_query_altered", "path_or_query_altered", "%s: back-end saw request target %q", where, br.RequestURI)
			}
			wantHost := backendAddr
			if aux.Preserve {
				wantHost = rq.Spec.Host
			}
			if br.Host != wantHost {
				w.Violate("host_rule", "host_rule", "%s: back-end saw Host %q, want %q (preserve-host=%v)", where, br.Host, wantHost, aux.Preserve)
			}
			if br.BodyErr != "" || !bytes.Equal(br.Body, rq.Spec.Body) {
				w.Violate("request_body_altered", "request_body_altered", "%s: back-end received %d body bytes (err %q), client sent %d", where, len(br.Body), br.BodyErr, len(rq.Spec.Body))
			}
			seen := map[string]bool{}
			for _, kv := range rq.Spec.Header {
				name := strings.ToLower(kv[0])
				if seen[name] {
					continue
				}
				seen[name] = true
				got := valuesCI(br.Header, name)
				isHop := hopByHop[name]
				for _, hn := range rq.HopNames {
					if strings.EqualFold(hn, name) {
						isHop = true
					}
				}
				if name == "connection" {
					// the proxy's own Connection header towards the back-end is its business;
					// the client's value must not be in it
					for _, g := range got {
						for _, sent := range sentValues(rq.Spec.Header, name) {
							if strings.Contains(strings.ToLower(g), strings.ToLower(sent)) {
								w.Violate("hop_by_hop_forwarded", "hop_by_hop_forwarded", "%s: the client's Connection value %q reached the back-end: %q", where, sent, got)
							}
						}
					}
					continue
				}
				if isHop {
					if len(got) > 0 {
						w.Violate("hop_by_hop_forwarded", "hop_by_hop_forwarded", "%s: hop-by-hop request header %s reached the back-end: %q", where, kv[0], got)
					}
					continue
				}
				want := sentValues(rq.Spec.Header, name)
				if name == "cookie" {
					// crumbs may be joined (RFC 9113 8.2.3)
					if strings.Join(got, "; ") != strings.Join(want, "; ") {
						w.Violate("request_header_altered", "request_header_altered", "%s: Cookie %q, sent %q", where, got, want)
					}
					continue
				}
				if !sameStrings(got, want) {
					w.Violate("request_header_altered", "request_header_altered", "%s: header %s arrived as %q, client sent %q", where, kv[0], truncStrings(got), truncStrings(want))
				}
			}
			if len(sentValues(rq.Spec.Header, "user-agent")) == 0 && len(valuesCI(br.Header, "user-agent")) > 0 {
				w.Violate("request_header_added", "request_header_added", "%s: the client sent no User-Agent, the back-end saw %q", where, valuesCI(br.Header, "user-agent"))
			}
			// Observation O8: request trailers do not survive httputil.ReverseProxy (the outbound
			// request carries a clone of Request.Trailer taken before the values arrive).  The
			// statement promises method, target, end-to-end headers and body for the request
			// direction and trailers only for the response direction: counted, not flagged.
			for _, kv := range rq.Trailers {
				if got := valuesCI(br.Trailer, kv[0]); !sameStrings(got, []string{kv[1]}) {
					w.Probe("observation_O8_request_trailer_not_forwarded")
				} else {
					w.Probe("request_trailer_forwarded")
				}
			}
			// ---- response direction
			status, body, hdr, ok := clientResponse(w, c, ci, ri)
			if !ok {
				w.Violate("response_missing", "response_missing", "%s: the client never received a complete response (client errors: %v) | %s", where, cl.StepErrs, c.Summary)
				continue
			}
			rp := rq.Resp
			if status != rp.Status {
				w.Violate("status_altered", "status_altered", "%s: client received status %d, back-end sent %d", where, status, rp.Status)
			}
			wantBody := rp.Body
			if rq.Spec.Method == "HEAD" {
				wantBody = nil
			}
			if !bytes.Equal(body, wantBody) {
				w.Violate("response_body_altered", "response_body_altered", "%s: client received %d body bytes, back-end sent %d", where, len(body), len(wantBody))
			}
			seen = map[string]bool{}
			for _, kv := range rp.Header {
				name := strings.ToLower(kv[0])
				if seen[name] {
					continue
				}
				seen[name] = true
				got := hdr[name]
				if hopByHop[name] {
					if len(got) > 0 {
						w.Violate("hop_by_hop_forwarded", "hop_by_hop_forwarded", "%s: hop-by-hop response header %s reached the client: %q", where, kv[0], got)
					}
					continue
				}
				if want := sentValues(rp.Header, name); !sameStrings(got, want) {
					w.Violate("response_header_altered", "response_header_altered", "%s: response header %s arrived as %q, back-end sent %q", where, kv[0], truncStrings(got), truncStrings(want))
				}
			}
			if len(rp.Trailer)+len(rp.LateTrailer) > 0 && rq.Spec.Method != "HEAD" {
				tr := clientTrailers(w, ci, ri, tag)
				all := append(append([][2]string{}, rp.Trailer...), rp.LateTrailer...)
				seen := map[string]bool{}
				for _, kv := range all {
					name := strings.ToLower(kv[0])
					if seen[name] {
						continue
					}
					seen[name] = true
					if got, want := tr[name], sentValues(all, name); !sameStrings(got, want) {
						w.Violate("response_trailer_altered", "response_trailer_altered", "%s: response trailer %s arrived as %q, back-end sent %q", where, kv[0], got, want)
					}
				}
				w.Probe("response_trailers_checked")
				if len(rp.Trailer) > 0 && len(rp.LateTrailer) > 0 {
					w.Probe("announced_and_late_response_trailers")
				}
			}
			// informational responses: exactly those the back-end sent, with their fields
			info := clientInfo(w, ci, ri, tag)
			if rq.Expect {
				if w.Clients[ci].Continues == 0 {
					w.Violate("continue_missing", "continue_missing", "%s: the request carried Expect: 100-continue and the back-end read its body, but no 100 (Continue) reached the client", where)
				} else {
					w.Probe("expect_100_continue_checked")
				}
			}
			if len(rp.Early) == 0 {
				if len(info) > 0 {
					w.Violate("informational_invented", "informational_invented", "%s: the client received %d informational response(s) (first %d) the back-end never sent", where, len(info), info[0].Status)
				}
			} else {
				if len(info) != 1 || info[0].Status != 103 {
					w.Violate("informational_lost", "informational_lost", "%s: the back-end sent one 103 before the final response, the client saw %d informational responses %v", where, len(info), info)
				} else {
					for _, kv := range rp.Early {
						if got := sentValues(info[0].Header, kv[0]); !sameStrings(got, []string{kv[1]}) {
							w.Violate("informational_altered", "informational_altered", "%s: field %s of the 103 response arrived as %q, back-end sent %q", where, kv[0], got, kv[1])
						}
					}
					w.Probe("informational_response_checked")
				}
			}
			w.Probe("exchanges_compared")
			if len(rq.Spec.Body) >= 1<<20 || len(rp.Body) >= 1<<20 {
				w.Probe("body_of_a_mebibyte_or_more")
			}
		}
	}
	if aux.Upgrade != nil && w.Clients[aux.Upgrade.CI].HandshakeOK {
		oracleC08Upgrade(w, c, aux.Upgrade, by)
	}
}

// oracleC08Upgrade: the upgrade request reaches the back-end with its Upgrade / Connection
// fields and its end-to-end fields, the 101 reaches the client, and the tunnel carries every
// byte in both directions, unchanged and in order.
func oracleC08Upgrade(w *World, c *Case, u *c08Upgrade, by map[string][]*BackendReq) {
	cl := w.Clients[u.CI]
	tag := u.Spec.Tag
	brs := by[tag]
	if len(brs) != 1 {
		w.Violate("request_not_forwarded_once", "request_not_forwarded_once", "%s (protocol upgrade): reached the back-end %d times | %s", tag, len(brs), c.Summary)
		return
	}
	br := brs[0]
	if got := br.Header.Values("Upgrade"); !sameStrings(got, []string{"verif-echo"}) {
		w.Violate("upgrade_request_altered", "upgrade_request_altered", "%s: back-end saw Upgrade = %q", tag, got)
	}
	if !strings.Contains(strings.ToLower(strings.Join(br.Header.Values("Connection"), ",")), "upgrade") {
		w.Violate("upgrade_request_altered", "upgrade_request_altered", "%s: back-end saw Connection = %q, the upgrade token is gone", tag, br.Header.Values("Connection"))
	}
	if br.RequestURI != c.Plan.ForwardPrefix+u.Spec.Path {
		w.Violate("path_or_query_altered", "path_or_query_altered", "%s: back-end saw request target %q, client sent %q", tag, br.RequestURI, u.Spec.Path)
	}
	seen := map[string]bool{}
	for _, kv := range u.Spec.Header {
		name := strings.ToLower(kv[0])
		if seen[name] || !strings.HasPrefix(name, "x-up") {
			continue
		}
		seen[name] = true
		if got, want := valuesCI(br.Header, name), sentValues(u.Spec.Header, name); !sameStrings(got, want) {
			w.Violate("request_header_altered", "request_header_altered", "%s (protocol upgrade): header %s arrived as %q, client sent %q", tag, name, truncStrings(got), truncStrings(want))
		}
	}
	var resp *RespRecord
	w.mu.Lock()
	for _, r := range cl.Resps {
		if r.Tag == tag {
			resp = r
		}
	}
	echo := append([]byte(nil), cl.TunnelEcho...)
	tunnel := append([]byte(nil), br.Tunnel...)
	w.mu.Unlock()
	if resp == nil || resp.Status != 101 {
		st := 0
		if resp != nil {
			st = resp.Status
		}
		w.Violate("status_altered", "status_altered", "%s: the back-end switched protocols (101), the client received status %d", tag, st)
		return
	}
	if got := resp.Header.Values("Upgrade"); !sameStrings(got, []string{"verif-echo"}) {
		w.Violate("response_header_altered", "response_header_altered", "%s: 101 response carries Upgrade = %q, back-end sent [verif-echo]", tag, got)
	}
	if got := resp.Header.Values("X-Backend-Tag"); !sameStrings(got, []string{tag}) {
		w.Violate("response_header_altered", "response_header_altered", "%s: 101 response carries X-Backend-Tag = %q, back-end sent %q", tag, got, tag)
	}
	if !bytes.Equal(tunnel, u.Sent) {
		w.Violate("tunnel_bytes_altered", "tunnel_bytes_altered:up", "%s: the back-end received %d bytes through the tunnel, the client sent %d (first difference at %d)", tag, len(tunnel), len(u.Sent), firstDiff(tunnel, u.Sent))
	}
	if !bytes.Equal(echo, u.Sent) {
		w.Violate("tunnel_bytes_altered", "tunnel_bytes_altered:down", "%s: the client received %d bytes through the tunnel, the back-end echoed %d (first difference at %d)", tag, len(echo), len(u.Sent), firstDiff(echo, u.Sent))
	}
	w.Probe("protocol_upgrade_checked")
}

func firstDiff(a, b []byte) int {
	for i := 0; i < len(a) && i < len(b); i++ {
		if a[i] != b[i] {
			return i
		}
	}
	return min(len(a), len(b))
}

func truncStrings(ss []string) []string {
	out := make([]string, len(ss))
	for i, s := range ss {
		if len(s) > 60 {
			s = s[:60] + fmt.Sprintf("...(%d)", len(s))
		}
		out[i] = s
	}
	return out
}

func clientInfo(w *World, ci, ri int, tag string) []InfoResp {
	cl := w.Clients[ci]
	if cl.NegProto == "h2" {
		if st := cl.Streams[uint32(2*ri+1)]; st != nil {
			return st.Info
		}
		return nil
	}
	for _, r := range cl.Resps {
		if r.Tag == tag {
			return r.Info
		}
	}
	return nil
}

func clientTrailers(w *World, ci, ri int, tag string) map[string][]string {
	cl := w.Clients[ci]
	out := map[string][]string{}
	if cl.NegProto == "h2" {
		st := cl.Streams[uint32(2*ri+1)]
		if st != nil {
			for _, kv := range st.Trailer {
				out[strings.ToLower(kv[0])] = append(out[strings.ToLower(kv[0])], kv[1])
			}
		}
		return out
	}
	for _, r := range cl.Resps {
		if r.Tag == tag {
			for k, v := range r.Trailer {
				out[strings.ToLower(k)] = v
			}
		}
	}
	return out
}

func init() {
	register(&CheckDef{ID: "C08", Level: "exploration", Engine: "A", Draw: drawC08,
		Rule: "1-3 clients (raw-frame HTTP/2 with up to 4 requests in flight, or HTTP/1.1 keep-alive), each request with a drawn method (GET/POST/PUT/DELETE/PATCH/OPTIONS/HEAD), path with percent-escapes and sub-delims, net/url-parseable query (repeated keys, empty values, escapes), 0-6 end-to-end header fields (empty, repeated, 1-6 kB, separators), User-Agent present or not, cookies (split into crumbs on HTTP/2), hop-by-hop and Connection-nominated fields, body of 0 / 1 / boundary / up to 3 MiB bytes sent as DATA frames or chunks of drawn sizes, with or without Content-Length, request trailers; back-end response with drawn status (incl. 204/304/HEAD), header set, body of the same size classes written in drawn pieces with flushes, trailers (announced, unannounced, both, two-valued); 10%: a 103 (Early Hints) informational response before the final one; 25% of the HTTP/1.1 clients pipeline their requests; 35% of the last HTTP/1.1 uploads of a connection carry Expect: 100-continue and hold their body back until a 100 arrives; 30%: a further HTTP/2 client that cancels large downloads part-way; 20%: a further HTTP/1.1 client that upgrades the protocol (101 through the reverse proxy) and exchanges 1-4 opaque messages of 1 B-40 kB with the back-end through the tunnel (request, 101 and every tunnel byte compared in both directions); 30%: frame writes held in flight by the controller (write fence), 10%: the serve loop held back while an asynchronous write is in flight (serve fence), 12%: cancel focus (four cancelled downloads next to streamed multi-frame downloads, all writes fenced); 6%: every back-end dial held for 6-30 s (fault backend_slow_dial) under -timeout-http-read 5s with HTTP/2 clients only, whose uploads have arrived in full before the clock moves; 15%: a forward URL with a path prefix (/base, /svc/v1, /a%20b; the back-end must see prefix + the client's request target); request hosts as plain names, with :443 / :8443, IPv6 and IPv4 literals, mixed case (30%); -preserve-host on/off, back-end keep-alive on/off, any write scheduler, segmentation in both directions; delivery order by the controller. Oracle: comparator in both directions (names case-insensitive, values / multiplicity / order exact, hop-by-hop set removed, Host rule, bodies byte-exact, trailers). Non-trivial: at least one request reached the back-end. Distinct: distinct controller action-label sequences."})
}

package harness

// Engine B (simstream), C04: hack.HijackClientHelloConn over a simulated
// connection that cuts the stream at seeded points and injects errors / EOF.

import (
	"bytes"
	"encoding/binary"
	"fmt"
	"io"
	"net"
	"time"

	"github.com/wi1dcard/fingerproxy/pkg/hack"
	"pgregory.net/rapid"
)

// cutConn delivers a byte stream in pieces of given sizes, then an error.
type cutConn struct {
	data   []byte
	pos    int
	cuts   []int // successive maximum read sizes; exhausted => deliver everything available
	ci     int
	endErr error // returned once data is exhausted (io.EOF, reset, ...)
	// terminal (n>0, err) read: the last piece is returned together with endErr
	lastWithErr bool
	supplied    []byte // what the layer below actually handed up
}

func (c *cutConn) Read(b []byte) (int, error) {
	if c.pos >= len(c.data) {
		return 0, c.endErr
	}
	n := len(c.data) - c.pos
	if c.ci < len(c.cuts) && c.cuts[c.ci] < n {
		n = c.cuts[c.ci]
	}
	c.ci++
	if n > len(b) {
		n = len(b)
	}
	if n <= 0 {
		n = 1
	}
	copy(b, c.data[c.pos:c.pos+n])
	c.supplied = append(c.supplied, c.data[c.pos:c.pos+n]...)
	c.pos += n
	if c.pos >= len(c.data) && c.lastWithErr {
		return n, c.endErr
	}
	return n, nil
}
func (c *cutConn) Write(b []byte) (int, error)        { return len(b), nil }
func (c *cutConn) Close() error                       { return nil }
func (c *cutConn) LocalAddr() net.Addr                { return tcpAddr("10.0.0.1:443") }
func (c *cutConn) RemoteAddr() net.Addr               { return tcpAddr("198.51.100.1:1234") }
func (c *cutConn) SetDeadline(t time.Time) error      { return nil }
func (c *cutConn) SetReadDeadline(t time.Time) error  { return nil }
func (c *cutConn) SetWriteDeadline(t time.Time) error { return nil }

type c04Stream struct {
	Data        []byte
	Valid       bool // starts with a handshake record header of an accepted version
	RecLen      int  // 5 + declared length when Valid
	Desc        string
	Cuts        []int
	BufSizes    []int
	EndErr      string
	LastWithErr bool
}

func runC04(s *c04Stream) []Violation {
	var vs []Violation
	bad := func(class, format string, args ...any) {
		vs = append(vs, Violation{class, class, fmt.Sprintf("%s | stream: %s cuts=%v bufs=%v end=%s lastWithErr=%v", fmt.Sprintf(format, args...), s.Desc, head(s.Cuts, 12), head(s.BufSizes, 12), s.EndErr, s.LastWithErr)})
	}
	var endErr error = io.EOF
	switch s.EndErr {
	case "reset":
		endErr = &net.OpError{Op: "read", Err: fmt.Errorf("connection reset by peer")}
	case "timeout":
		endErr = &net.OpError{Op: "read", Err: fmt.Errorf("i/o timeout")}
	}
	under := &cutConn{data: s.Data, cuts: s.Cuts, endErr: endErr, lastWithErr: s.LastWithErr}
	hj := hack.NewHijackClientHelloConn(under)
	var above []byte
	nilErrBytes := 0 // bytes handed up by reads that returned a nil error
	var midRec [][]byte
	for i := 0; ; i++ {
		sz := 4096
		if i < len(s.BufSizes) {
			sz = s.BufSizes[i]
		}
		buf := make([]byte, sz)
		n, err := hj.Read(buf)
		above = append(above, buf[:n]...)
		if err == nil {
			nilErrBytes += n
		}
		// GetClientHello may be asked at any moment: never partial / over-long
		rec, gerr := hj.GetClientHello()
		if gerr == nil {
			midRec = append(midRec, append([]byte(nil), rec...))
		}
		if err != nil {
			break
		}
		if i > len(s.Data)+10 {
			bad("harness", "read loop does not terminate")
			break
		}
	}
	if !bytes.Equal(above, under.supplied) {
		bad("not_transparent", "bytes above the wrapper (%d) differ from the bytes supplied below it (%d)", len(above), len(under.supplied))
	}
	if !bytes.Equal(above, s.Data) {
		bad("not_transparent", "the layer above did not receive the complete stream: %d of %d bytes", len(above), len(s.Data))
	}
	rec, err := hj.GetClientHello()
	complete := s.Valid && nilErrBytes >= s.RecLen
	switch {
	case complete && err != nil:
		bad("hello_missing", "complete first record (%d bytes) was read but GetClientHello fails: %v", s.RecLen, err)
	case complete && !bytes.Equal(rec, s.Data[:s.RecLen]):
		bad("hello_wrong", "GetClientHello returned %d bytes that are not the first record (%d bytes): got % x..., want % x...", len(rec), s.RecLen, head(rec, 12), head(s.Data[:s.RecLen], 12))
	case !complete && err == nil && !(s.Valid && len(s.Data) >= s.RecLen && bytes.Equal(rec, s.Data[:s.RecLen])):
		bad("hello_partial", "no complete handshake record arrived (valid=%v, record %d bytes, %d bytes read without error) but GetClientHello reports %d bytes", s.Valid, s.RecLen, nilErrBytes, len(rec))
	}
	for _, r := range midRec {
		if !s.Valid || len(r) != s.RecLen || !bytes.Equal(r, s.Data[:s.RecLen]) {
			bad("hello_partial_midstream", "GetClientHello asked mid-stream returned %d bytes, first record has %d (valid=%v)", len(r), s.RecLen, s.Valid)
			break
		}
	}
	return vs
}

func head[T any](s []T, n int) []T {
	if len(s) > n {
		return s[:n]
	}
	return s
}

func mkRecord(typ byte, vers uint16, l int, fill byte) []byte {
	b := make([]byte, 5+l)
	b[0] = typ
	binary.BigEndian.PutUint16(b[1:], vers)
	binary.BigEndian.PutUint16(b[3:], uint16(l))
	for i := 5; i < len(b); i++ {
		b[i] = fill + byte(i)
	}
	return b
}

var c04LenClasses = []int{0, 1, 2, 3, 4, 5, 6, 7, 250, 251, 255, 256, 257, 512, 1023, 1024, 4091, 4096, 4097, 8191, 16383, 16384, 16385, 18431, 18432}

func drawC04(t *rapid.T) *Case {
	s := &c04Stream{}
	kind := rapid.IntRange(0, 9).Draw(t, "kind")
	vers := uint16(0x0300 + rapid.IntRange(0, 4).Draw(t, "vers"))
	l := c04LenClasses[rapid.IntRange(0, len(c04LenClasses)-1).Draw(t, "lenclass")]
	if drawBool(t, "interior", 40) {
		l = rapid.IntRange(0, 18432).Draw(t, "len")
	}
	switch {
	case kind <= 5: // valid record + following bytes
		rec := mkRecord(0x16, vers, l, 7)
		s.Valid, s.RecLen = true, len(rec)
		tail := rapid.IntRange(0, 3).Draw(t, "tailrecs")
		s.Data = rec
		for i := 0; i < tail; i++ {
			tl := rapid.IntRange(0, 600).Draw(t, "taillen")
			s.Data = append(s.Data, mkRecord(byte(rapid.IntRange(20, 24).Draw(t, "tailtype")), 0x0303, tl, 99)...)
		}
		s.Desc = fmt.Sprintf("valid record vers=%04x len=%d + %d following bytes", vers, l, len(s.Data)-len(rec))
	case kind == 6: // truncated valid record
		rec := mkRecord(0x16, vers, l, 7)
		s.Valid, s.RecLen = true, len(rec)
		cut := rapid.IntRange(0, len(rec)-1).Draw(t, "trunc")
		s.Data = rec[:cut]
		s.Desc = fmt.Sprintf("valid record vers=%04x len=%d truncated to %d bytes", vers, l, cut)
	case kind == 7: // not a handshake record
		typ := byte(rapid.IntRange(0, 255).Draw(t, "type"))
		if typ == 0x16 {
			typ = 0x17
		}
		s.Data = append(mkRecord(typ, vers, rapid.IntRange(0, 300).Draw(t, "l"), 3), mkRecord(0x16, 0x0303, 40, 9)...)
		s.Desc = fmt.Sprintf("first byte %#x is not a handshake record (%d bytes)", typ, len(s.Data))
	case kind == 8: // bad version
		bv := []uint16{0x0200, 0x02ff, 0x0305, 0x0400, 0xffff, 0x0000, 0x1603}[rapid.IntRange(0, 6).Draw(t, "bv")]
		s.Data = mkRecord(0x16, bv, rapid.IntRange(0, 300).Draw(t, "l"), 3)
		s.Desc = fmt.Sprintf("record version %#04x outside SSL3.0..TLS1.3 (%d bytes)", bv, len(s.Data))
	default: // plain HTTP / short garbage
		s.Data = []byte("GET / HTTP/1.1\r\nHost: x\r\n\r\n")[:rapid.IntRange(1, 27).Draw(t, "glen")]
		s.Desc = fmt.Sprintf("plain text %q", s.Data)
	}
	// read schedule
	switch rapid.IntRange(0, 5).Draw(t, "sched") {
	case 0:
		for i := 0; i < 40; i++ {
			s.Cuts = append(s.Cuts, 1)
		}
	case 1:
		s.Cuts = []int{rapid.IntRange(1, 4).Draw(t, "inhdr")}
	case 2:
		s.Cuts = []int{5}
	case 3:
		if s.Valid {
			s.Cuts = []int{s.RecLen}
		}
	case 4:
		if s.Valid && s.RecLen > 6 {
			s.Cuts = []int{rapid.IntRange(6, s.RecLen-1).Draw(t, "intail")}
		}
	case 5:
		n := rapid.IntRange(1, 30).Draw(t, "ncuts")
		for i := 0; i < n; i++ {
			s.Cuts = append(s.Cuts, rapid.IntRange(1, 700).Draw(t, "cut"))
		}
	}
	if drawBool(t, "smallbufs", 40) {
		n := rapid.IntRange(1, 20).Draw(t, "nbufs")
		for i := 0; i < n; i++ {
			s.BufSizes = append(s.BufSizes, rapid.IntRange(1, 600).Draw(t, "buf"))
		}
	}
	s.EndErr = []string{"eof", "reset", "timeout"}[rapid.IntRange(0, 2).Draw(t, "enderr")]
	s.LastWithErr = drawBool(t, "lastwitherr", 20)
	c := &Case{Summary: fmt.Sprintf("%s cuts=%v bufs=%v end=%s n>0+err=%v", s.Desc, head(s.Cuts, 8), head(s.BufSizes, 8), s.EndErr, s.LastWithErr)}
	c.Direct = func(c *Case) []Violation { return runC04(s) }
	c.DirectKey = fmt.Sprintf("%s|%v|%v|%s|%v", s.Desc, s.Cuts, s.BufSizes, s.EndErr, s.LastWithErr)
	c.DirectStats = map[string]int{"valid_stream": b2i(s.Valid), "invalid_stream": b2i(!s.Valid), "cut_inside_header": b2i(len(s.Cuts) > 0 && s.Cuts[0] < 5), "terminal_read_with_bytes_and_error": b2i(s.LastWithErr)}
	return c
}

func b2i(b bool) int {
	if b {
		return 1
	}
	return 0
}

// enumeration: every composition (way of cutting into successive reads) of short streams
var c04EnumStreams = func() []c04Stream {
	var out []c04Stream
	for l := 0; l <= 6; l++ {
		rec := mkRecord(0x16, 0x0301, l, 1)
		data := append(append([]byte(nil), rec...), mkRecord(0x14, 0x0303, 1, 5)...)
		if len(data) > 12 {
			data = data[:12]
		}
		out = append(out, c04Stream{Data: data, Valid: true, RecLen: 5 + l, Desc: fmt.Sprintf("valid record len=%d + following bytes (12-byte stream)", l)})
	}
	rec := mkRecord(0x16, 0x0303, 9, 1)
	out = append(out, c04Stream{Data: rec[:12], Valid: true, RecLen: 14, Desc: "valid record len=9 truncated to 12 bytes"})
	out = append(out, c04Stream{Data: mkRecord(0x17, 0x0303, 7, 1), Valid: false, Desc: "application-data record first (12 bytes)"})
	out = append(out, c04Stream{Data: mkRecord(0x16, 0x0305, 7, 1), Valid: false, Desc: "bad version 0x0305 (12 bytes)"})
	return out
}()

func c04Case(_ map[string]int, i int) *Case {
	per := 1 << 11 * 2 // compositions x {EOF, terminal n>0+err}
	si := i / per
	mask := (i % per) / 2
	s := c04EnumStreams[si]
	s.LastWithErr = i%2 == 1
	s.EndErr = "eof"
	// composition of 12 from the 11-bit mask: a set bit after position k ends a piece there
	piece := 0
	for k := 0; k < len(s.Data); k++ {
		piece++
		if k == len(s.Data)-1 || mask&(1<<k) != 0 {
			s.Cuts = append(s.Cuts, piece)
			piece = 0
		}
	}
	c := &Case{Summary: fmt.Sprintf("enum %d: %s cuts=%v n>0+err=%v", i, s.Desc, s.Cuts, s.LastWithErr)}
	c.Direct = func(c *Case) []Violation { return runC04(&s) }
	c.DirectKey = fmt.Sprint(i)
	return c
}

func init() {
	register(&CheckDef{ID: "C04", Level: "exploration", Engine: "B", Draw: drawC04,
		Rule:     "wrapper level (engine B): byte streams = valid first record of every length class 0..2^14+2048 (boundaries and seeded interior values) and record version 0x0300..0x0304 followed by further records, truncated records, non-handshake first bytes, bad versions, plain text; crossed with read schedules (1 byte at a time, cut inside the 5-byte header, at 5, at the record boundary, inside the tail, random cuts, small caller buffers) and stream endings (EOF / reset / timeout, optionally delivered together with the last bytes). Oracle: bytes above the wrapper == bytes supplied below; GetClientHello == first 5+len bytes iff that many bytes were read without error, otherwise an error; asked after every read it never returns a partial or over-long record. End-to-end under segmentation is covered by C01/C02 runs (segmentation profiles). Distinct: distinct (stream, schedule) pairs.",
		EnumRule: "enumerated part: every composition (all 2^11 ways of cutting into successive reads) of ten 12-byte streams (valid records of length 0..6 with following bytes, a truncated record, a non-handshake record, a bad version), each with a plain EOF and with a terminal read that returns bytes together with the error.",
		Enum: &EnumDef{
			Params: func(run func(c *Case) *World) map[string]int { return map[string]int{"streams": len(c04EnumStreams)} },
			Count:  func(p map[string]int) int { return len(c04EnumStreams) * (1 << 11) * 2 },
			Case:   c04Case,
		}})
}

//go:build verifdet

package harness

import _ "unsafe" // linkname

// The worker is built with an overlay over two files of the Go runtime (cmd/verif
// makeOverlay): inside synctest bubbles select tie-breaks, map seeds / iteration
// offsets and math/rand's auto-seeded generators come from one splitmix64 stream
// whose state is this variable.

//go:linkname runtimeVerifDet runtime.verifDet
var runtimeVerifDet uint64

const detRandBuilt = true

// setDetRand positions the stream: a function of the run's seed and the controller step.
func setDetRand(seed uint64, step int) {
	x := seed ^ (uint64(step)+1)*0x9e3779b97f4a7c15
	x ^= x >> 29
	x *= 0xbf58476d1ce4e5b9
	x ^= x >> 32
	if x == 0 {
		x = 1
	}
	runtimeVerifDet = x
}

func clearDetRand() { runtimeVerifDet = 0 }

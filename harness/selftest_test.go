package harness

// Self-tests of the reference models (run with VERIF_SELFTEST=1): refhello's JA4
// against the expected values of FoxIO's own implementation (insta snapshots shipped
// in the repository's pkg/ja4pcap/testdata) on every ClientHello of the 30 pcaps.

import (
	"bufio"
	"io"
	"os"
	"path/filepath"
	"strings"
	"testing"

	"github.com/google/gopacket"
	"github.com/google/gopacket/layers"
	"github.com/google/gopacket/pcapgo"
)

func TestRefHelloFoxIO(t *testing.T) {
	if os.Getenv("VERIF_SELFTEST") == "" {
		t.Skip("set VERIF_SELFTEST=1")
	}
	dir := os.Getenv("VERIF_PCAPDIR")
	if dir == "" {
		dir = "/repo/pkg/ja4pcap/testdata"
	}
	files, _ := filepath.Glob(filepath.Join(dir, "pcap", "*"))
	hellos, matched, open := 0, 0, 0
	for _, f := range files {
		snap := filepath.Join(dir, "snapshots", "ja4__insta@"+filepath.Base(f)+".snap")
		want := map[string]bool{}
		if sf, err := os.Open(snap); err == nil {
			sc := bufio.NewScanner(sf)
			sc.Buffer(make([]byte, 1<<20), 1<<20)
			for sc.Scan() {
				line := strings.TrimSpace(sc.Text())
				if strings.HasPrefix(line, "ja4: ") {
					want[strings.TrimPrefix(line, "ja4: ")] = true
				}
			}
			sf.Close()
		}
		fh, err := os.Open(f)
		if err != nil {
			continue
		}
		var src gopacket.PacketDataSource
		var lt layers.LinkType
		if r, err := pcapgo.NewReader(fh); err == nil {
			src, lt = r, r.LinkType()
		} else {
			fh.Seek(0, io.SeekStart)
			r2, err2 := pcapgo.NewNgReader(fh, pcapgo.DefaultNgReaderOptions)
			if err2 != nil {
				fh.Close()
				continue
			}
			src, lt = r2, r2.LinkType()
		}
		ps := gopacket.NewPacketSource(src, lt)
		for p := range ps.Packets() {
			tl := p.Layer(layers.LayerTypeTCP)
			if tl == nil {
				continue
			}
			pl := tl.(*layers.TCP).LayerPayload()
			if len(pl) < 10 || pl[0] != 0x16 || pl[5] != 1 {
				continue
			}
			rh, err := ParseHelloRecord(pl)
			if err != nil {
				continue // hello spans segments / records: not judged
			}
			hellos++
			ref := rh.JA4()
			if ref.ALPNOpen {
				open++
			}
			ok := false
			for w := range want {
				if m, _ := ref.Match(w); m {
					ok = true
				}
			}
			if ok {
				matched++
			} else if len(want) > 0 {
				t.Errorf("%s: reference JA4 %s_%s_%s (plain c %q) matches none of FoxIO's values %v", filepath.Base(f), ref.A, ref.B[0], ref.C[0], ref.CPlain, keys(want))
			}
		}
		fh.Close()
	}
	t.Logf("refhello vs FoxIO snapshots: %d ClientHellos in %d pcaps, %d matched a snapshot value, %d with an ALPN part the text leaves open", hellos, len(files), matched, open)
	if hellos < 20 {
		t.Errorf("only %d hellos found", hellos)
	}
}

func keys(m map[string]bool) []string {
	var out []string
	for k := range m {
		out = append(out, k)
	}
	return out
}

package harness

// refhello: independent ClientHello parser and JA3 / JA4 reference, written
// from the JA3 README and the FoxIO JA4 text (DESIGN.md appendix A).  Nothing
// here is derived from pkg/ja3, pkg/ja4, tlsx or utls.

import (
	"crypto/md5"
	"crypto/sha256"
	"encoding/hex"
	"fmt"
	"sort"
	"strings"
)

type RefExt struct {
	Type uint16
	Data []byte
}

type RefHello struct {
	RecordVersion uint16
	LegacyVersion uint16
	SessionID     []byte
	Ciphers       []uint16
	Compression   []byte
	HasExts       bool
	Exts          []RefExt

	Groups      []uint16
	HasGroups   bool
	Points      []uint8
	HasPoints   bool
	SigAlgs     []uint16
	ALPN        [][]byte
	HasALPN     bool
	Versions    []uint16
	HasVersions bool
	HasSNI      bool
	SNIListLen  int
}

type rd struct {
	b   []byte
	err bool
}

func (r *rd) u8() int {
	if len(r.b) < 1 {
		r.err = true
		return 0
	}
	v := int(r.b[0])
	r.b = r.b[1:]
	return v
}
func (r *rd) u16() int { return r.u8()<<8 | r.u8() }
func (r *rd) u24() int { return r.u8()<<16 | r.u8()<<8 | r.u8() }
func (r *rd) take(n int) []byte {
	if n < 0 || len(r.b) < n {
		r.err = true
		return nil
	}
	v := r.b[:n]
	r.b = r.b[n:]
	return v
}

// ParseHelloRecord parses a TLS record that carries one complete ClientHello.
func ParseHelloRecord(rec []byte) (*RefHello, error) {
	r := &rd{b: rec}
	if r.u8() != 0x16 {
		return nil, fmt.Errorf("not a handshake record")
	}
	h := &RefHello{}
	h.RecordVersion = uint16(r.u16())
	body := r.take(r.u16())
	if r.err {
		return nil, fmt.Errorf("short record")
	}
	r = &rd{b: body}
	if r.u8() != 1 {
		return nil, fmt.Errorf("not a client hello")
	}
	msg := r.take(r.u24())
	if r.err {
		return nil, fmt.Errorf("hello spans records")
	}
	r = &rd{b: msg}
	h.LegacyVersion = uint16(r.u16())
	r.take(32)
	h.SessionID = r.take(r.u8())
	cs := &rd{b: r.take(r.u16())}
	for len(cs.b) >= 2 {
		h.Ciphers = append(h.Ciphers, uint16(cs.u16()))
	}
	h.Compression = r.take(r.u8())
	if r.err {
		return nil, fmt.Errorf("malformed hello")
	}
	if len(r.b) == 0 {
		return h, nil
	}
	h.HasExts = true
	ex := &rd{b: r.take(r.u16())}
	if r.err {
		return nil, fmt.Errorf("malformed extensions")
	}
	for len(ex.b) > 0 {
		t := uint16(ex.u16())
		d := ex.take(ex.u16())
		if ex.err {
			return nil, fmt.Errorf("malformed extension")
		}
		h.Exts = append(h.Exts, RefExt{t, d})
		e := &rd{b: d}
		switch t {
		case 0:
			h.HasSNI = true
			h.SNIListLen = e.u16()
		case 10:
			h.HasGroups = true
			l := &rd{b: e.take(e.u16())}
			for len(l.b) >= 2 {
				h.Groups = append(h.Groups, uint16(l.u16()))
			}
		case 11:
			h.HasPoints = true
			h.Points = append(h.Points, e.take(e.u8())...)
		case 13:
			l := &rd{b: e.take(e.u16())}
			for len(l.b) >= 2 {
				h.SigAlgs = append(h.SigAlgs, uint16(l.u16()))
			}
		case 16:
			h.HasALPN = true
			l := &rd{b: e.take(e.u16())}
			for len(l.b) > 0 && !l.err {
				h.ALPN = append(h.ALPN, l.take(l.u8()))
			}
		case 43:
			h.HasVersions = true
			l := &rd{b: e.take(e.u8())}
			for len(l.b) >= 2 {
				h.Versions = append(h.Versions, uint16(l.u16()))
			}
		}
	}
	return h, nil
}

func refGREASE(v uint16) bool {
	hi, lo := v>>8, v&0xff
	return hi == lo && lo&0x0f == 0x0a
}

func joinDec16(vs []uint16, dropGrease bool) string {
	var parts []string
	for _, v := range vs {
		if dropGrease && refGREASE(v) {
			continue
		}
		parts = append(parts, fmt.Sprint(v))
	}
	return strings.Join(parts, "-")
}

// JA3String per the salesforce/ja3 README.
func (h *RefHello) JA3String() string {
	var exts []uint16
	for _, e := range h.Exts {
		exts = append(exts, e.Type)
	}
	var pts []string
	for _, p := range h.Points {
		pts = append(pts, fmt.Sprint(p))
	}
	return fmt.Sprintf("%d,%s,%s,%s,%s", h.LegacyVersion, joinDec16(h.Ciphers, true), joinDec16(exts, true), joinDec16(h.Groups, true), strings.Join(pts, "-"))
}

func (h *RefHello) JA3() string {
	s := md5.Sum([]byte(h.JA3String()))
	return hex.EncodeToString(s[:])
}

func sha12(s string) string {
	x := sha256.Sum256([]byte(s))
	return hex.EncodeToString(x[:])[:12]
}

func hex4(vs []uint16) string {
	var p []string
	for _, v := range vs {
		p = append(p, fmt.Sprintf("%04x", v))
	}
	return strings.Join(p, ",")
}

// JA4Ref is the reference value with the parts the text leaves open.
type JA4Ref struct {
	A        string   // 10 characters; ALPN part may be undetermined
	ALPNOpen bool     // last two characters of A are not determined by the text
	B        []string // admissible values for part b
	C        []string // admissible values for part c
	CPlain   string
}

func (h *RefHello) JA4() JA4Ref {
	var out JA4Ref
	vers := h.LegacyVersion
	if h.HasVersions {
		var best uint16
		for _, v := range h.Versions {
			if !refGREASE(v) && v > best {
				best = v
			}
		}
		vers = best
	}
	vs := "00"
	switch vers {
	case 0x0304:
		vs = "13"
	case 0x0303:
		vs = "12"
	case 0x0302:
		vs = "11"
	case 0x0301:
		vs = "10"
	}
	sni := "i"
	if h.HasSNI {
		sni = "d"
	}
	var ciphers []uint16
	for _, c := range h.Ciphers {
		if !refGREASE(c) {
			ciphers = append(ciphers, c)
		}
	}
	nExt := 0
	var exts []uint16
	for _, e := range h.Exts {
		if refGREASE(e.Type) {
			continue
		}
		nExt++
		if e.Type == 0 || e.Type == 16 {
			continue
		}
		exts = append(exts, e.Type)
	}
	alpn := "00"
	if h.HasALPN && len(h.ALPN) > 0 && len(h.ALPN[0]) > 0 {
		a := h.ALPN[0]
		isAN := func(b byte) bool {
			return b >= '0' && b <= '9' || b >= 'a' && b <= 'z' || b >= 'A' && b <= 'Z'
		}
		if len(a) >= 2 && isAN(a[0]) && isAN(a[len(a)-1]) && !(len(a) == 2 && refGREASE(uint16(a[0])<<8|uint16(a[1]))) {
			alpn = string(a[0]) + string(a[len(a)-1])
		} else {
			out.ALPNOpen = true
		}
	}
	cnt := func(n int) string {
		if n > 99 {
			n = 99
		}
		return fmt.Sprintf("%02d", n)
	}
	out.A = "t" + vs + sni + cnt(len(ciphers)) + cnt(nExt) + alpn
	sort.Slice(ciphers, func(i, j int) bool { return ciphers[i] < ciphers[j] })
	sort.Slice(exts, func(i, j int) bool { return exts[i] < exts[j] })
	out.B = []string{sha12(hex4(ciphers))}
	if len(ciphers) == 0 {
		out.B = append(out.B, "000000000000")
	}
	var sigs []uint16
	for _, s := range h.SigAlgs {
		if !refGREASE(s) {
			sigs = append(sigs, s)
		}
	}
	plain := hex4(exts)
	if len(sigs) > 0 {
		plain += "_" + hex4(sigs)
	}
	out.CPlain = plain
	out.C = []string{sha12(plain)}
	if len(exts) == 0 {
		out.C = append(out.C, "000000000000")
	}
	return out
}

// Match reports whether got is an admissible JA4 for this reference.
func (r JA4Ref) Match(got string) (bool, string) {
	parts := strings.Split(got, "_")
	if len(parts) != 3 {
		return false, "not of the form a_b_c"
	}
	isHex12 := func(s string) bool {
		if len(s) != 12 {
			return false
		}
		for _, c := range s {
			if !(c >= '0' && c <= '9' || c >= 'a' && c <= 'f') {
				return false
			}
		}
		return true
	}
	if !isHex12(parts[1]) || !isHex12(parts[2]) {
		return false, "b or c is not 12 hex digits"
	}
	a := parts[0]
	if r.ALPNOpen {
		if len(a) < 8 || a[:8] != r.A[:8] {
			return false, fmt.Sprintf("part a %q, want prefix %q", a, r.A[:8])
		}
	} else if a != r.A {
		return false, fmt.Sprintf("part a %q, want %q", a, r.A)
	}
	in := func(x string, xs []string) bool {
		for _, y := range xs {
			if x == y {
				return true
			}
		}
		return false
	}
	if !in(parts[1], r.B) {
		return false, fmt.Sprintf("part b %q, want %v", parts[1], r.B)
	}
	if !in(parts[2], r.C) {
		return false, fmt.Sprintf("part c %q, want %v (of %q)", parts[2], r.C, r.CPlain)
	}
	return true, ""
}

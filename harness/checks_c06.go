package harness

import (
	"fmt"

	"pgregory.net/rapid"
)

func init() {
	register(&CheckDef{ID: "C06", Level: "exploration", Engine: "A", Draw: drawC06,
		Rule: "2-8 concurrent clients with pairwise different ClientHellos (a unique marker cipher each) and pairwise different HTTP/2 preambles, same or different peer addresses (including identical ip:port reused by a later connection), HTTP/1.1 keep-alive sequences and multiplexed HTTP/2 requests, some clients resetting or closing mid-session, handlers optionally parked at a yielding injector so that handlers of different connections overlap in every order. Oracle: every (tag -> JA3, JA4, HTTP/2 fingerprint) at the back-end equals the reference value of the tag's own connection. Race mode (-race build, four Ps, no parking inside the harness): the controller offers a weighted 'burst' action - every enabled delivery and client step in one step - so that goroutines of different connections run side by side; one request in flight per connection; a race report whose two stacks meet in the same function of fingerproxy is a violation (two connections executing the same code on unsynchronised shared state). Non-trivial: requests of >= 2 different connections reached the back-end. Distinct: distinct controller action-label sequences."})
}

type c06Aux struct {
	Scripts map[int]*H2Script
}

func drawC06(t *rapid.T) *Case {
	p := &Plan{Check: "C06"}
	aux := &c06Aux{Scripts: map[int]*H2Script{}}
	n := rapid.IntRange(2, 8).Draw(t, "nclients")
	var metas []*ClientMeta
	sharedAddr := "192.0.2.99:40404"
	// 15%: every client sends the same ClientHello.random (a client without entropy, a replayed
	// hello): the hellos still differ, and so must what is reported for them
	var sameRandom []byte
	if drawBool(t, "samerandom", 15) {
		sameRandom = rapid.SliceOfN(rapid.Byte(), 32, 32).Draw(t, "hellorandom")
	}
	for ci := 0; ci < n; ci++ {
		proto := []string{"h2", "h1", "none"}[rapid.IntRange(0, 2).Draw(t, "proto")]
		hello := DrawHello(t, HelloOpts{Proto: proto})
		// unique marker so that fingerprints are pairwise different
		hello.Ciphers = insertAt(hello.Ciphers, rapid.IntRange(0, len(hello.Ciphers)).Draw(t, "markpos"), uint16(0xe100+ci))
		addr := drawAddr(t, ci)
		if drawBool(t, "sameaddr", 25) {
			addr = sharedAddr
		}
		cp := &ClientPlan{ID: ci, Addr: addr, Hello: hello}
		if sameRandom != nil {
			cp.Random = sameRandom
		}
		m := &ClientMeta{Proto: proto}
		if proto == "h2" {
			burst := 0
			if drawBool(t, "bigfp", 12) {
				// a connection whose HTTP/2 fingerprint runs to a kilobyte and more (what rendering
				// it leaves behind must not show in anybody else's)
				burst = rapid.IntRange(90, 400).Draw(t, "bigfpn")
			}
			maxReqs := 3
			if raceMode() {
				maxReqs = 1 // one request in flight per connection: what races is two connections
			}
			sc := DrawH2Script(t, H2GenOpts{ClientID: ci, MaxReqs: maxReqs, ExtraMax: 2, TailFrames: false, PrioBurst: burst})
			// make the preamble unique too
			sc.Groups[0] = append([]Frame{}, sc.Groups[0]...)
			aux.Scripts[ci] = sc
			cp.Steps = sc.Steps(true)
			for _, r := range sc.Reqs {
				m.Reqs = append(m.Reqs, r.Spec)
			}
		} else {
			cp.Steps = append(cp.Steps, Step{Kind: "connect"})
			nreq := rapid.IntRange(1, 4).Draw(t, "nreq")
			for ri := 0; ri < nreq; ri++ {
				r := ReqSpec{Tag: fmt.Sprintf("c%d-r%d", ci, ri), Method: "GET", Path: fmt.Sprintf("/k%d", ri), Host: fmt.Sprintf("h%d.verif.test", ci)}
				m.Reqs = append(m.Reqs, r)
				cp.Steps = append(cp.Steps, Step{Kind: "h1req", Pieces: [][]byte{r.H1()}, Tag: r.Tag})
			}
			cp.Steps = append(cp.Steps, Step{Kind: "close"})
		}
		// some clients abort instead of closing, or cut their script short
		switch rapid.IntRange(0, 5).Draw(t, "ending") {
		case 0:
			cp.Steps[len(cp.Steps)-1] = Step{Kind: "reset"}
		case 1:
			if len(cp.Steps) > 3 {
				k := rapid.IntRange(2, len(cp.Steps)-1).Draw(t, "cutat")
				cp.Steps = append(cp.Steps[:k:k], Step{Kind: "reset"})
			}
		}
		if drawBool(t, "seg", 25) {
			cp.Seg = drawSeg(t)
		}
		p.Clients = append(p.Clients, cp)
		metas = append(metas, m)
	}
	p.YieldInjector = drawBool(t, "yield", 40)
	p.Fences = drawBool(t, "fences", 30)
	if raceMode() {
		// -race worker: no parking inside the harness (its locks would order the goroutines of
		// different connections); instead the controller offers steps that advance every
		// connection at once, so that their goroutines run unordered and the race detector can
		// see unsynchronised state shared between connections
		p.YieldInjector, p.Fences, p.Burst = false, false, true
	}
	p.BackendKeepAlive = drawBool(t, "beka", 30)
	p.Args = drawCommonArgs(t)
	if drawBool(t, "prioflood", 3) {
		// one more HTTP/2 connection that sends 70000 PRIORITY frames on idle streams, sends no
		// request and stays open while the others run: what it makes the server remember must
		// not show in anybody else's fingerprint
		ci := len(p.Clients)
		cp := &ClientPlan{ID: ci, Addr: drawAddr(t, ci), Hello: fixedHello("h2")}
		cp.Steps = []Step{{Kind: "connect"}, {Kind: "write", Pieces: [][]byte{append([]byte(ClientPreface), FramesBytes(SettingsFrame())...)}}}
		for part := 0; part < 7; part++ {
			var b []byte
			for j := 0; j < 10000; j++ {
				b = append(b, PriorityFrame(uint32(2*((part*10000+j)%1000)+1), PrioParam{Dep: 0, Weight: uint8(j)}).Bytes()...)
			}
			cp.Steps = append(cp.Steps, Step{Kind: "write", Pieces: [][]byte{b}})
		}
		cp.Steps = append(cp.Steps, Step{Kind: "write", Pieces: [][]byte{FramesBytes(PingFrame(false, [8]byte{0xfc}))}}, Step{Kind: "h2ping"}, Step{Kind: "sleep", DelayMS: 5000}, Step{Kind: "close"})
		p.Clients = append(p.Clients, cp)
		metas = append(metas, &ClientMeta{Proto: "h2", Kind: "prioflood"})
		for i := 0; i < n; i++ {
			p.Clients[i].StartAfterPing = []int{ci}
		}
		p.Budget = 20000
	}
	if drawBool(t, "timedout", 25) {
		metas = addTimedOutHandshakes(t, p, metas, n)
	}
	p.Tape, p.Tail = drawTape(t, 128)
	c := &Case{Plan: p, Metas: metas, Oracle: oracleC06, Aux: aux}
	c.Summary = defaultSummary(p, metas)
	c.Nontrivial = func(w *World, c *Case) bool {
		seen := map[string]bool{}
		for _, r := range w.BackReqs {
			if i := indexByte(r.Tag, '-'); i > 0 {
				seen[r.Tag[:i]] = true
			}
		}
		return len(seen) >= 2
	}
	return c
}

func indexByte(s string, b byte) int {
	for i := 0; i < len(s); i++ {
		if s[i] == b {
			return i
		}
	}
	return -1
}

func oracleC06(w *World, c *Case) {
	aux := c.Aux.(*c06Aux)
	by := w.ReqsByTag()
	// reference values of every connection
	type ref struct {
		ja3 string
		ja4 JA4Ref
		ok  bool
	}
	refs := map[int]ref{}
	for ci := range c.Metas {
		cl := w.Clients[ci]
		if !cl.HandshakeOK {
			continue
		}
		h, err := ParseHelloRecord(cl.HelloRecord())
		if err != nil {
			continue
		}
		refs[ci] = ref{h.JA3(), h.JA4(), true}
	}
	for ci, m := range c.Metas {
		rf, ok := refs[ci]
		if !ok {
			continue
		}
		for _, r := range m.Reqs {
			for _, br := range by[r.Tag] {
				w.Probe("attributions_checked")
				if got := br.Header.Values("X-Ja3-Fingerprint"); len(got) != 1 || got[0] != rf.ja3 {
					other := ""
					for cj, o := range refs {
						if cj != ci && len(got) == 1 && o.ja3 == got[0] {
							other = fmt.Sprintf(" (that is the JA3 of connection c%d)", cj)
						}
					}
					if len(got) == 0 && sniKnownSig(w.Clients[ci].HelloRecord()) != "" {
						continue
					}
					w.Violate("ja3_attribution", "ja3_attribution", "%s: X-JA3-Fingerprint %q, own connection's is %q%s", r.Tag, got, rf.ja3, other)
				}
				if got := br.Header.Values("X-Ja4-Fingerprint"); len(got) == 1 {
					if ok, why := rf.ja4.Match(got[0]); !ok {
						w.Violate("ja4_attribution", "ja4_attribution", "%s: X-JA4-Fingerprint %q is not its own connection's: %s", r.Tag, got[0], why)
					}
				} else if h, err := ParseHelloRecord(w.Clients[ci].HelloRecord()); len(got) == 0 && err == nil && hasUtlsStrictExt(h) {
					// known finding D8 (C02): no JA4 at all for this hello; not an attribution matter
				} else {
					w.Violate("ja4_attribution", "ja4_attribution", "%s: X-JA4-Fingerprint %q", r.Tag, got)
				}
				if br.RemoteAddr != proxyOut {
					w.Violate("harness", "harness", "unexpected back-end peer %s", br.RemoteAddr)
				}
				// forwarded-for must name this connection's peer, too
				if xff := br.Header.Get("X-Forwarded-For"); xff != peerIP(c.Plan.Clients[ci].Addr) {
					w.Violate("xff_attribution", "xff_attribution", "%s: X-Forwarded-For %q, own peer is %q", r.Tag, xff, peerIP(c.Plan.Clients[ci].Addr))
				}
			}
		}
	}
	checkH2FP(w, c, aux.Scripts, 10000)
}

// addTimedOutHandshakes: 1-3 connections that run into a 1 s handshake timeout first
// (whatever their teardown leaves behind must not reach the connections that follow); some of
// the first n (real) clients wait for them, the others overlap.
func addTimedOutHandshakes(t *rapid.T, p *Plan, metas []*ClientMeta, n int) []*ClientMeta {
	p.Args = append(p.Args, "-timeout-tls-handshake", "1s")
	k := rapid.IntRange(1, 3).Draw(t, "nstall")
	var stallers []int
	for j := 0; j < k; j++ {
		ci := len(p.Clients)
		cp, m := DrawConnClient(t, ci, "stall_wait", 1)
		p.Clients = append(p.Clients, cp)
		metas = append(metas, m)
		stallers = append(stallers, ci)
	}
	for ci := 0; ci < n; ci++ {
		if drawBool(t, "afterstall", 60) {
			// (in addition to what the client already waits for: a resuming connection starts
			// after the connection whose session it resumes)
			p.Clients[ci].StartAfterDone = append(append([]int{}, p.Clients[ci].StartAfterDone...), stallers...)
		}
	}
	return metas
}

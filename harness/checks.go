package harness

import (
	"fmt"
	"os"
	"sort"
	"strings"

	"pgregory.net/rapid"
)

// A Case is one drawn execution: plan + oracle.
type Case struct {
	Plan        *Plan
	Metas       []*ClientMeta
	Oracle      func(w *World, c *Case)
	Mid         func(w *World, c *Case)   // after Run, before Drain
	Direct      func(c *Case) []Violation // engines B/C: no world
	Summary     string
	Aux         any
	Nontrivial  func(w *World, c *Case) bool
	DirectKey   string // engines B/C: key for distinct counting
	DirectStats map[string]int
}

type CheckDef struct {
	ID       string
	Draw     func(t *rapid.T) *Case
	Level    string
	Engine   string // "A" simproxy, "B" simstream, "C" simfs
	Rule     string
	Real     []string
	Stub     []string
	Enum     *EnumDef
	EnumRule string
}

// EnumDef: a finite, indexable case space (fault enumeration).
type EnumDef struct {
	// Params measures what the enumeration depends on (session lengths, op counts)
	// by running the fault-free sessions; must be deterministic.
	Params func(run func(c *Case) *World) map[string]int
	Count  func(params map[string]int) int
	Case   func(params map[string]int, i int) *Case
}

var Checks = map[string]*CheckDef{}

func register(d *CheckDef) { Checks[d.ID] = d }

func (c *Case) meta(i int) *ClientMeta {
	if i < len(c.Metas) {
		return c.Metas[i]
	}
	return nil
}

// forwarded returns, per tag, the back-end records; violations for duplicates
// are the business of the individual checks.
func one(reqs []*BackendReq) *BackendReq {
	if len(reqs) == 0 {
		return nil
	}
	return reqs[0]
}

func defaultSummary(p *Plan, metas []*ClientMeta) string {
	var sb strings.Builder
	fmt.Fprintf(&sb, "args=%v ", p.Args)
	for i, cp := range p.Clients {
		proto := ""
		if i < len(metas) {
			proto = metas[i].Proto
		}
		fmt.Fprintf(&sb, "| c%d %s %s seg=%s steps=%d ", cp.ID, cp.Addr, proto, cp.Seg.Profile, len(cp.Steps))
		if cp.Hello != nil {
			fmt.Fprintf(&sb, "hello{%s} ", cp.Hello.String())
		}
	}
	fmt.Fprintf(&sb, "| tape=%d", len(p.Tape))
	return sb.String()
}

func headerValues(h map[string][]string, name string) []string {
	var out []string
	for k, vs := range h {
		if strings.EqualFold(k, name) {
			out = append(out, vs...)
		}
	}
	sort.Strings(out)
	return out
}

// ----------------------------------------------------------------- C09

func init() {
	register(&CheckDef{ID: "C09", Level: "exploration", Engine: "A", Draw: drawC09,
		Rule: "1-4 concurrent clients (h2 raw-frame / HTTP/1.1), generated ClientHellos, 1-3 requests each carrying 0-3 client-supplied Forwarded / X-Forwarded-* lines, IPv4/IPv6 peers, request hosts as plain names or (30%) with :443 / :8443, as IPv6 / IPv4 literals, in mixed case, -preserve-host on/off through the real flag wiring; schedule (delivery order, segmentation) from the seed. Non-trivial: at least one request reached the back-end. Distinct: distinct schedule hashes (sequence of controller action labels).",
	})
}

func drawFwdHeaders(t *rapid.T, proto string, ci, ri int) [][2]string {
	var h [][2]string
	names := []string{"X-Forwarded-For", "X-Forwarded-Host", "X-Forwarded-Proto", "Forwarded"}
	for _, n := range names {
		k := rapid.IntRange(0, 3).Draw(t, "nfwd")
		if k == 3 {
			k = 0
		}
		for j := 0; j < k; j++ {
			var v string
			switch n {
			case "X-Forwarded-For":
				v = fmt.Sprintf("203.0.113.%d", rapid.IntRange(1, 250).Draw(t, "xff"))
				if drawBool(t, "xff2", 30) {
					v += ", 10.1.1.1"
				}
				if drawBool(t, "xfflong", 12) {
					// a long chain of hops (IPv6), up to a few kB on one line
					for k, hops := 0, []int{20, 40, 64, 200}[rapid.IntRange(0, 3).Draw(t, "xffhops")]; k < hops; k++ {
						v += fmt.Sprintf(", 2001:db8:%x::%x", k, ri+1)
					}
				}
			case "X-Forwarded-Host":
				v = "evil.example"
			case "X-Forwarded-Proto":
				v = []string{"http", "ftp", "https"}[rapid.IntRange(0, 2).Draw(t, "xfp")]
			case "Forwarded":
				v = "for=1.2.3.4;proto=http;host=evil.example"
			}
			name := n
			if proto == "h1" && drawBool(t, "case", 30) {
				name = strings.ToLower(n)
			}
			h = append(h, [2]string{name, v})
		}
	}
	return h
}

func drawCommonArgs(t *rapid.T) []string {
	var args []string
	if drawBool(t, "preserve", 50) {
		args = append(args, "-preserve-host")
	}
	return args
}

func drawC09(t *rapid.T) *Case {
	p := &Plan{Check: "C09"}
	p.Args = drawCommonArgs(t)
	cps, metas := DrawFront(t, FrontOpts{MinClients: 1, MaxClients: 4, MaxReqs: 3, HeaderGen: drawFwdHeaders, Segment: true, SchemeHTTPPct: 25, FillCanonCachePct: 35})
	p.Clients = cps
	if drawBool(t, "refuse", 20) {
		// 1-3 of the proxy's connection attempts to the back-end are refused: whatever the proxy
		// does about that, a request that reaches the back-end carries the forwarding headers
		// of the request the client sent
		for k := rapid.IntRange(1, 3).Draw(t, "nrefuse"); k > 0; k-- {
			p.Faults.RefuseDial = append(p.Faults.RefuseDial, rapid.IntRange(1, 6).Draw(t, "refuseat"))
		}
	}
	p.Tape, p.Tail = drawTape(t, 64)
	c := &Case{Plan: p, Metas: metas, Oracle: oracleC09}
	c.Summary = defaultSummary(p, metas)
	return c
}

func peerIP(addr string) string {
	a := tcpAddr(addr)
	s := a.String()
	i := strings.LastIndex(s, ":")
	s = s[:i]
	return strings.Trim(s, "[]")
}

func oracleC09(w *World, c *Case) {
	by := w.ReqsByTag()
	for ci, m := range c.Metas {
		cp := c.Plan.Clients[ci]
		for _, r := range m.Reqs {
			for _, br := range by[r.Tag] {
				// X-Forwarded-For: client's list then the peer
				var prior []string
				for _, kv := range r.Header {
					if strings.EqualFold(kv[0], "X-Forwarded-For") {
						prior = append(prior, kv[1])
					}
				}
				want := strings.Join(append(prior, peerIP(cp.Addr)), ", ")
				got := strings.Join(br.Header.Values("X-Forwarded-For"), ", ")
				if got != want {
					w.Violate("xff", "xff", "%s (%s): X-Forwarded-For = %q, want %q", r.Tag, m.Proto, br.Header.Values("X-Forwarded-For"), want)
				}
				if got := br.Header.Values("X-Forwarded-Host"); len(got) != 1 || got[0] != r.Host {
					w.Violate("xfh", "xfh", "%s (%s): X-Forwarded-Host = %q, want %q", r.Tag, m.Proto, got, r.Host)
				}
				if got := br.Header.Values("X-Forwarded-Proto"); len(got) != 1 || got[0] != "https" {
					w.Violate("xfp", "xfp:"+protoOf(w, ci), "%s (%s): X-Forwarded-Proto = %q, want [\"https\"]", r.Tag, protoOf(w, ci), got)
				}
				if got := br.Header.Values("Forwarded"); len(got) != 0 {
					w.Violate("forwarded", "forwarded", "%s (%s): client-supplied Forwarded %q reached the back-end", r.Tag, m.Proto, got)
				}
			}
		}
	}
}

func protoOf(w *World, ci int) string {
	p := w.Clients[ci].NegProto
	if p == "" {
		return "http/1.1"
	}
	return p
}

func raceMode() bool { return osGetenv("VERIF_RACE") != "" }

func osGetenv(k string) string { return os.Getenv(k) }

package harness

import (
	"fmt"

	"pgregory.net/rapid"
)

type H2Req struct {
	Spec     ReqSpec
	Stream   uint32
	EventIdx int // number of events up to and including this request's HEADERS
	Group    int // write group that carries the end of its header block
	HasBody  bool
	Trailers [][2]string
}

type H2Script struct {
	Groups  [][]Frame
	Events  []FPEvent
	Reqs    []H2Req
	Refused []uint32 // streams opened by HEADERS frames the server must refuse (stream error)
	// the script ends with a SETTINGS frame that carries valid entries and one the server rejects
	// (connection error): the frame was sent, so a request forwarded afterwards carries either the
	// previous SETTINGS or this whole frame - never the entries up to the rejected one
	BadSettings bool
	NPrio       int
}

type H2GenOpts struct {
	ClientID         int
	MaxReqs          int
	Bodies           bool
	ExtraMax         int  // extra fingerprint-relevant frames before each request
	TailFrames       bool // more frames after the last request
	PrioBurst        int  // that many PRIORITY frames on idle streams right after the preamble (a fingerprint of a kilobyte and more)
	BadSettingsTail  bool // 15%: the script ends with a SETTINGS frame whose last-but-n entry the server must reject
	OneGroupPerFrame bool
}

var pseudoPerms = [][]string{
	{":method", ":scheme", ":authority", ":path"},
	{":method", ":authority", ":scheme", ":path"},
	{":method", ":path", ":authority", ":scheme"},
	{":method", ":scheme", ":path", ":authority"},
	{":path", ":method", ":scheme", ":authority"},
	{":authority", ":path", ":scheme", ":method"},
	{":method", ":scheme", ":path"}, // no :authority (allowed; host header absent => Host empty)
}

func drawSettingsList(t *rapid.T) []Setting {
	ids := []uint16{1, 2, 3, 4, 5, 6, 8, 9, 0x10, 0xff00}
	// distinct ids: the server hangs up on SETTINGS frames with duplicate ids (upstream hardening, O5)
	ids = append([]uint16(nil), ids...)
	shuffle(t, "setshuf", ids)
	n := rapid.IntRange(0, 5).Draw(t, "nset")
	var out []Setting
	for i := 0; i < n; i++ {
		id := ids[i]
		var v uint32
		switch id {
		case 2:
			v = uint32(rapid.IntRange(0, 1).Draw(t, "push"))
		case 4:
			v = uint32(rapid.IntRange(65535, 1<<24).Draw(t, "iws"))
		case 5:
			v = uint32(rapid.IntRange(16384, 1<<20).Draw(t, "mfs"))
			if drawBool(t, "mfsedge", 30) {
				// the ends of the legal range (RFC 9113 6.5.2: 2^14 .. 2^24-1)
				v = []uint32{16384, 1<<24 - 1, 1<<24 - 2, 16385}[rapid.IntRange(0, 3).Draw(t, "mfsedgev")]
			}
		case 3:
			v = uint32(rapid.IntRange(1, 1000).Draw(t, "mcs"))
		case 8:
			v = uint32(rapid.IntRange(0, 1).Draw(t, "ecp"))
		default:
			v = uint32(rapid.IntRange(0, 1<<20).Draw(t, "setval"))
		}
		out = append(out, Setting{id, v})
	}
	return out
}

func drawPrio(t *rapid.T, stream uint32) PrioParam {
	dep := uint32(rapid.IntRange(0, 10).Draw(t, "pdep"))
	if dep != 0 {
		dep = 2*dep + 1
	}
	if dep == stream {
		dep = 0
	}
	return PrioParam{Dep: dep, Exclusive: drawBool(t, "pex", 30), Weight: uint8(rapid.IntRange(0, 255).Draw(t, "pw"))}
}

// DrawH2Script draws a legal HTTP/2 client session.
func DrawH2Script(t *rapid.T, o H2GenOpts) *H2Script {
	s := &H2Script{}
	enc := NewHEnc()
	group := 0
	var cur []Frame
	flush := func() {
		if len(cur) > 0 {
			s.Groups = append(s.Groups, cur)
			cur = nil
			group++
		}
	}
	maybeFlush := func() {
		if o.OneGroupPerFrame || drawBool(t, "split", 50) {
			flush()
		}
	}
	addEvent := func(e FPEvent) {
		e.WriteIdx = group
		s.Events = append(s.Events, e)
		if e.Kind == "prio" || (e.Kind == "headers" && e.Prio != nil) {
			s.NPrio++
		}
	}
	extra := func(nextStream uint32, label string) {
		k := rapid.IntRange(0, o.ExtraMax).Draw(t, label)
		for i := 0; i < k; i++ {
			switch rapid.IntRange(0, 5).Draw(t, "xkind") {
			case 0:
				ss := drawSettingsList(t)
				cur = append(cur, SettingsFrame(ss...))
				addEvent(FPEvent{Kind: "settings", Settings: ss})
			case 1:
				inc := uint32(rapid.IntRange(1, 1<<20).Draw(t, "wuinc"))
				wst := uint32(0)
				if nextStream > 1 && drawBool(t, "wustream", 40) {
					// on a stream opened earlier, which may be half-closed or closed by now: legal
					// (RFC 7540 6.9), and as much a WINDOW_UPDATE frame as one on stream 0 (wave 12, C03-t)
					wst = uint32(2*rapid.IntRange(0, int(nextStream-3)/2).Draw(t, "wust") + 1)
				}
				cur = append(cur, WindowUpdateFrame(wst, inc))
				addEvent(FPEvent{Kind: "wu", Inc: inc})
			case 2, 3:
				st := uint32(2*rapid.IntRange(0, 12).Draw(t, "pstream") + 1)
				p := drawPrio(t, st)
				cur = append(cur, PriorityFrame(st, p))
				pp := p
				addEvent(FPEvent{Kind: "prio", Stream: st, Prio: &pp})
			case 4:
				cur = append(cur, PingFrame(false, [8]byte{1, 2, 3, 4, 5, 6, 7, byte(i)}))
			case 5:
				// unknown frame type: must be ignored
				cur = append(cur, Frame{Type: 0xbb, Stream: 0, Payload: []byte{1, 2, 3}})
			}
			maybeFlush()
		}
	}

	// preamble
	ss := drawSettingsList(t)
	cur = append(cur, SettingsFrame(ss...))
	addEvent(FPEvent{Kind: "settings", Settings: ss})
	// the preface bytes are prepended by the caller
	extra(1, "npre")
	for i := 0; i < o.PrioBurst; i++ {
		st := uint32(2*(60+i%500) + 1)
		pp := PrioParam{Dep: uint32(2 * (i % 3)), Exclusive: i%7 == 0, Weight: uint8(i)}
		if pp.Dep != 0 {
			pp.Dep--
		}
		cur = append(cur, PriorityFrame(st, pp))
		q := pp
		addEvent(FPEvent{Kind: "prio", Stream: st, Prio: &q})
	}
	if o.PrioBurst > 0 {
		maybeFlush()
	}
	nreq := rapid.IntRange(1, o.MaxReqs).Draw(t, "nreq")
	for ri := 0; ri < nreq; ri++ {
		stream := uint32(2*ri + 1)
		if ri > 0 {
			extra(stream, "nextra")
		}
		r := ReqSpec{Tag: fmt.Sprintf("c%d-r%d", o.ClientID, ri), Method: "GET", Path: fmt.Sprintf("/p%d", ri), Host: fmt.Sprintf("h%d.verif.test", o.ClientID)}
		perm := pseudoPerms[rapid.IntRange(0, len(pseudoPerms)-1).Draw(t, "pperm")]
		var prio *PrioParam
		if drawBool(t, "hprio", 40) {
			p := drawPrio(t, stream)
			prio = &p
		}
		hasBody := o.Bodies && drawBool(t, "body", 40)
		var trailers [][2]string
		if hasBody {
			r.Method = "POST"
			r.Body = make([]byte, rapid.IntRange(1, 3000).Draw(t, "bodylen"))
			for i := range r.Body {
				r.Body[i] = byte('a' + (i+ri)%26)
			}
			if drawBool(t, "trailers", 40) {
				trailers = [][2]string{{"x-trailer-a", "1"}, {"x-trailer-b", r.Tag}}
				if drawBool(t, "emptytrailers", 25) {
					// a trailer section with no fields: a HEADERS frame with an empty header block ends the stream
					trailers = [][2]string{}
				}
			}
		}
		var cuts []int
		if drawBool(t, "cont", 35) {
			nc := rapid.IntRange(1, 3).Draw(t, "ncuts")
			for i := 0; i < nc; i++ {
				cuts = append(cuts, rapid.IntRange(1, 60).Draw(t, "cut"))
			}
			sortInts(cuts)
		}
		var fs []Frame
		var tprio *PrioParam
		if trailers != nil {
			// a trailer block may carry the PRIORITY flag too (legal; it counts for the fingerprint)
			if drawBool(t, "tprio", 40) {
				tp := drawPrio(t, stream)
				tprio = &tp
			}
			// header block without content-length so the DATA frames need not end the stream
			fs = h2RequestWithTrailers(enc, stream, r, perm, prio, cuts, trailers, tprio)
		} else {
			var ds []int
			if hasBody {
				ds = []int{rapid.IntRange(1, 2000).Draw(t, "d1"), rapid.IntRange(1, 2000).Draw(t, "d2")}
			}
			fs = H2RequestFrames(enc, stream, r, perm, prio, cuts, ds)
		}
		var pseudo []string
		for _, p := range perm {
			pseudo = append(pseudo, p[1:])
		}
		// the header block is complete with the last HEADERS/CONTINUATION frame
		for i, f := range fs {
			cur = append(cur, f)
			if f.Type == FHeaders || f.Type == FContinuation {
				if f.Flags&FlagEndHeaders != 0 {
					if i > 0 && fs[i].Type == FHeaders {
						// trailers block
						addEvent(FPEvent{Kind: "headers", Stream: stream, Prio: tprio, Pseudo: nil})
					} else {
						addEvent(FPEvent{Kind: "headers", Stream: stream, Prio: prio, Pseudo: pseudo})
						s.Reqs = append(s.Reqs, H2Req{Spec: r, Stream: stream, EventIdx: len(s.Events), Group: group, HasBody: hasBody, Trailers: trailers})
					}
					if drawBool(t, "splitbody", 40) {
						flush()
					}
				}
			}
		}
		maybeFlush()
	}
	if o.TailFrames {
		extra(uint32(2*nreq+1), "ntail")
		if drawBool(t, "refused", 25) {
			// a HEADERS frame the server refuses with a stream error (no :path), usually with
			// priority: it is a frame the client sent, so it counts for the fingerprint of
			// every request that is forwarded after it - headers and priority alike
			id := uint32(2*nreq + 1)
			perm := [][]string{{":method", ":scheme", ":authority"}, {":authority", ":method", ":scheme"}, {":scheme", ":method"}}[rapid.IntRange(0, 2).Draw(t, "refperm")]
			var fields [][2]string
			var pseudo []string
			for _, k := range perm {
				v := map[string]string{":method": "GET", ":scheme": "https", ":authority": "refused.verif.test"}[k]
				fields = append(fields, [2]string{k, v})
				pseudo = append(pseudo, k[1:])
			}
			fields = append(fields, [2]string{"x-tag", fmt.Sprintf("c%d-refused", o.ClientID)})
			var prio *PrioParam
			if drawBool(t, "refprio", 75) {
				pp := drawPrio(t, id)
				prio = &pp
			}
			cur = append(cur, HeadersFrames(id, enc.Block(fields), true, prio, -1, nil)...)
			addEvent(FPEvent{Kind: "headers", Stream: id, Prio: prio, Pseudo: pseudo})
			s.Refused = append(s.Refused, id)
			maybeFlush()
			extra(uint32(2*nreq+3), "ntail2")
		}
	}
	if o.BadSettingsTail && drawBool(t, "badsettings", 15) {
		var ss []Setting
		for _, x := range drawSettingsList(t) {
			if x.ID != 2 && x.ID != 5 && x.ID != 8 {
				ss = append(ss, x)
			}
		}
		if len(ss) == 0 {
			ss = []Setting{{1, 4096}}
		}
		bad := []Setting{{2, 2}, {5, 100}, {5, 1 << 24}, {8, 2}}[rapid.IntRange(0, 3).Draw(t, "badsetting")]
		at := rapid.IntRange(1, len(ss)).Draw(t, "badsettingat")
		ss = append(ss[:at:at], append([]Setting{bad}, ss[at:]...)...)
		cur = append(cur, SettingsFrame(ss...))
		addEvent(FPEvent{Kind: "settings", Settings: ss})
		s.BadSettings = true
		maybeFlush()
	}
	flush()
	return s
}

func sortInts(a []int) {
	for i := 1; i < len(a); i++ {
		for j := i; j > 0 && a[j] < a[j-1]; j-- {
			a[j], a[j-1] = a[j-1], a[j]
		}
	}
}

func h2RequestWithTrailers(enc *HEnc, stream uint32, r ReqSpec, perm []string, prio *PrioParam, cuts []int, trailers [][2]string, tprio *PrioParam) []Frame {
	var fields [][2]string
	for _, k := range perm {
		switch k {
		case ":method":
			fields = append(fields, [2]string{k, r.Method})
		case ":scheme":
			fields = append(fields, [2]string{k, "https"})
		case ":authority":
			fields = append(fields, [2]string{k, r.Host})
		case ":path":
			fields = append(fields, [2]string{k, r.Path})
		}
	}
	fields = append(fields, [2]string{"x-tag", r.Tag})
	for _, kv := range r.Header {
		fields = append(fields, kv)
	}
	if len(trailers) > 0 {
		fields = append(fields, [2]string{"trailer", "x-trailer-a, x-trailer-b"})
	}
	fs := HeadersFrames(stream, enc.Block(fields), false, prio, -1, cuts)
	half := len(r.Body) / 2
	fs = append(fs, DataFrame(stream, r.Body[:half], false, -1), DataFrame(stream, r.Body[half:], false, -1))
	fs = append(fs, HeadersFrames(stream, enc.Block(trailers), true, tprio, -1, nil)...)
	return fs
}

// Steps renders the script as client steps (connect, writes, await, close).
func (s *H2Script) Steps(await bool) []Step {
	st := []Step{{Kind: "connect"}}
	for i, g := range s.Groups {
		b := FramesBytes(g...)
		if i == 0 {
			b = append([]byte(ClientPreface), b...)
		}
		st = append(st, Step{Kind: "write", Pieces: [][]byte{b}})
	}
	if await {
		var ids []uint32
		for _, r := range s.Reqs {
			ids = append(ids, r.Stream)
		}
		st = append(st, Step{Kind: "h2await", Streams: ids})
	}
	st = append(st, Step{Kind: "close"})
	return st
}

module verif/harness

go 1.26

// Placeholder: checks build with -modfile pointing at a generated go.mod whose
// replace directive names the scratch copy of /repo (see cmd/verif).

package harness

// simnet: the simulated network.  Every byte that moves between a client, the
// proxy and the back-end moves because the controller decided so.
//
//   - Write never blocks (see DESIGN.md 3.2): bytes go to the in-flight queue of
//     their direction.
//   - Read returns only what the controller has delivered; otherwise it parks on
//     a bubble channel (durably blocked for synctest) honouring read deadlines.
//   - Close = FIN ordered after in-flight data.  Reset = in-flight data dropped,
//     peer sees ECONNRESET on read and EPIPE on write.
//
// One mutex protects the whole network; it is never held while parked.

import (
	"context"
	"fmt"
	"io"
	"net"
	"os"
	"sort"
	"strings"
	"sync"
	"syscall"
	"time"
)

type Op struct {
	Conn string // pair name + side
	Kind string
	N    int
}

type Net struct {
	mu    sync.Mutex
	pairs map[string]*Pair
	names []string // sorted lazily
	ops   []Op
	// Stats
	BytesDelivered int
	Deliveries     int
	seqDial        int
	Faults         map[string]int // fault kind -> fired count
	fmu            sync.Mutex     // guards Faults
	onNewPair      func(p *Pair)
}

func NewNet() *Net {
	return &Net{pairs: map[string]*Pair{}, Faults: map[string]int{}}
}

func (n *Net) fired(kind string) {
	n.fmu.Lock()
	n.Faults[kind]++
	n.fmu.Unlock()
}

// half is one direction of a pair.
type half struct {
	inflight     []byte
	finQueued    bool // FIN follows the in-flight bytes
	readable     []byte
	finDelivered bool
	rst          bool // receiver sees ECONNRESET
	broken       bool // writer sees EPIPE (receiver is gone)
	rcvClosed    bool // receiver called Close: deliveries are discarded
	stalled      bool // controller refuses to deliver (fault: stall)
	total        int  // bytes ever written into this direction
	delivered    int  // bytes ever delivered
}

type ConnFaults struct {
	ReadErrAt     int // op index (1-based) at which Read fails; 0 = never
	ReadErrKind   string
	WriteErrAt    int
	WriteErrKind  string
	DeadlineErrAt int // index over Set*Deadline calls
	ShortReadMax  int // >0: Read returns at most this many bytes
}

type Pair struct {
	Name string
	A, B *Conn // A = initiator, B = acceptor
	net  *Net
	// mu guards both connections of the pair and their two directions.  Connection
	// goroutines take only this lock (never Net.mu): goroutines of different connections
	// then share no lock of the simulator, which is what lets a -race worker see an
	// unsynchronised access between two connections of the system under test.  The
	// controller takes Net.mu first, then the pair's mu.
	mu  sync.Mutex
	ops []Op
}

type Conn struct {
	net    *Net
	pair   *Pair
	side   string // "a" or "b"
	in     *half
	out    *half
	closed bool
	rdl    time.Time
	wdl    time.Time // write deadline (writes never block; a deadline that has passed fails them)
	rwake  chan struct{}
	local  net.Addr
	remote net.Addr

	ReadOps, WriteOps, DeadlineOps int
	CloseCalls                     int
	ClosedAt                       time.Time // (bubble) time of the first Close call
	Faults                         ConnFaults
	// everything ever written by this side (kept only when Record is set)
	Record  bool
	Written []byte
}

func (c *Conn) key() string { return c.pair.Name + "/" + c.side }

func (n *Net) logOp(c *Conn, kind string, k int) {
	c.pair.ops = append(c.pair.ops, Op{c.key(), kind, k})
}

// TakeOps returns the canonical form of the operations since the last call:
// per-connection sequences, sorted by connection.
func (n *Net) TakeOps() string {
	n.mu.Lock()
	var ops []Op
	for _, name := range n.names {
		p := n.pairs[name]
		p.mu.Lock()
		ops = append(ops, p.ops...)
		p.ops = nil
		p.mu.Unlock()
	}
	n.mu.Unlock()
	if len(ops) == 0 {
		return ""
	}
	by := map[string][]string{}
	for _, o := range ops {
		by[o.Conn] = append(by[o.Conn], fmt.Sprintf("%s%d", o.Kind, o.N))
	}
	keys := make([]string, 0, len(by))
	for k := range by {
		keys = append(keys, k)
	}
	sort.Strings(keys)
	var sb strings.Builder
	for _, k := range keys {
		sb.WriteString(k)
		sb.WriteByte('[')
		sb.WriteString(strings.Join(by[k], ","))
		sb.WriteString("] ")
	}
	return sb.String()
}

func (n *Net) NewPair(name string, aAddr, bAddr net.Addr) *Pair {
	n.mu.Lock()
	defer n.mu.Unlock()
	if _, dup := n.pairs[name]; dup {
		// keep names unique and stable: suffix with a counter
		for i := 2; ; i++ {
			nn := fmt.Sprintf("%s~%d", name, i)
			if _, d := n.pairs[nn]; !d {
				name = nn
				break
			}
		}
	}
	p := &Pair{Name: name, net: n}
	ab, ba := &half{}, &half{}
	p.A = &Conn{net: n, pair: p, side: "a", in: ba, out: ab, local: aAddr, remote: bAddr}
	p.B = &Conn{net: n, pair: p, side: "b", in: ab, out: ba, local: bAddr, remote: aAddr}
	n.pairs[name] = p
	n.names = append(n.names, name)
	sort.Strings(n.names)
	if n.onNewPair != nil {
		n.onNewPair(p)
	}
	return p
}

func (n *Net) Pair(name string) *Pair {
	n.mu.Lock()
	defer n.mu.Unlock()
	return n.pairs[name]
}

// Pending lists the deliverable directions in canonical order.
type Pending struct {
	Pair *Pair
	Dir  string // "ab" or "ba"
	N    int    // in-flight bytes (0 = only a FIN is pending)
}

func (n *Net) Pending() []Pending {
	n.mu.Lock()
	defer n.mu.Unlock()
	var out []Pending
	for _, name := range n.names {
		p := n.pairs[name]
		p.mu.Lock()
		for _, d := range []string{"ab", "ba"} {
			h := p.A.out
			if d == "ba" {
				h = p.B.out
			}
			if h.stalled {
				continue
			}
			if len(h.inflight) > 0 || (h.finQueued && !h.finDelivered) {
				out = append(out, Pending{p, d, len(h.inflight)})
			}
		}
		p.mu.Unlock()
	}
	return out
}

// Deliver moves k bytes (k<=0 or k>in-flight: all) of a direction to its
// reader; when nothing is in flight it delivers the queued FIN.
func (n *Net) Deliver(p *Pair, dir string, k int) {
	n.mu.Lock()
	defer n.mu.Unlock()
	p.mu.Lock()
	defer p.mu.Unlock()
	src, dst := p.A, p.B
	if dir == "ba" {
		src, dst = p.B, p.A
	}
	h := src.out
	if len(h.inflight) == 0 {
		if h.finQueued && !h.finDelivered {
			h.finDelivered = true
			n.logOp(dst, "fin", 0)
			dst.wakeLocked()
		}
		return
	}
	if k <= 0 || k > len(h.inflight) {
		k = len(h.inflight)
	}
	n.Deliveries++
	n.BytesDelivered += k
	h.delivered += k
	if h.rcvClosed {
		// receiver is gone: a real stack answers with RST
		h.inflight = h.inflight[k:]
		h.broken = true
		return
	}
	h.readable = append(h.readable, h.inflight[:k]...)
	h.inflight = h.inflight[k:]
	n.logOp(dst, "dl", k)
	dst.wakeLocked()
}

// Reset aborts the connection from side c: in-flight data is dropped in both
// directions; the peer reads ECONNRESET and its writes fail with EPIPE.
func (n *Net) Reset(c *Conn) {
	n.mu.Lock()
	defer n.mu.Unlock()
	c.pair.mu.Lock()
	defer c.pair.mu.Unlock()
	peer := c.peer()
	c.out.inflight = nil
	c.out.finQueued = false
	c.out.rst = true
	c.in.inflight = nil
	c.in.readable = nil
	c.in.broken = true
	c.in.rcvClosed = true
	c.closed = true
	n.logOp(c, "rst", 0)
	c.wakeLocked()
	peer.wakeLocked()
}

func (n *Net) Stall(p *Pair, dir string, on bool) {
	n.mu.Lock()
	defer n.mu.Unlock()
	p.mu.Lock()
	defer p.mu.Unlock()
	h := p.A.out
	if dir == "ba" {
		h = p.B.out
	}
	h.stalled = on
}

func (c *Conn) peer() *Conn {
	if c.side == "a" {
		return c.pair.B
	}
	return c.pair.A
}

func (c *Conn) wakeLocked() {
	if c.rwake != nil {
		close(c.rwake)
		c.rwake = nil
	}
}

func opErr(op string, c *Conn, err error) error {
	return &net.OpError{Op: op, Net: "tcp", Source: c.local, Addr: c.remote, Err: err}
}

func faultErr(kind, op string) error {
	switch kind {
	case "reset":
		return os.NewSyscallError(op, syscall.ECONNRESET)
	case "pipe":
		return os.NewSyscallError(op, syscall.EPIPE)
	case "timeout":
		return os.ErrDeadlineExceeded
	default:
		return fmt.Errorf("simnet: injected %s failure", op)
	}
}

func (c *Conn) Read(b []byte) (int, error) {
	n := c.net
	c.pair.mu.Lock()
	c.ReadOps++
	if c.Faults.ReadErrAt != 0 && c.ReadOps == c.Faults.ReadErrAt {
		n.fired("read_error_" + c.Faults.ReadErrKind)
		n.logOp(c, "rE", 0)
		c.pair.mu.Unlock()
		return 0, opErr("read", c, faultErr(c.Faults.ReadErrKind, "read"))
	}
	for {
		if c.closed {
			c.pair.mu.Unlock()
			return 0, opErr("read", c, net.ErrClosed)
		}
		if len(b) == 0 {
			c.pair.mu.Unlock()
			return 0, nil
		}
		if len(c.in.readable) > 0 {
			lim := len(b)
			if c.Faults.ShortReadMax > 0 && lim > c.Faults.ShortReadMax {
				lim = c.Faults.ShortReadMax
			}
			k := copy(b[:lim], c.in.readable)
			c.in.readable = c.in.readable[k:]
			n.logOp(c, "r", k)
			c.pair.mu.Unlock()
			return k, nil
		}
		if c.in.rst {
			n.logOp(c, "rRST", 0)
			c.pair.mu.Unlock()
			return 0, opErr("read", c, os.NewSyscallError("read", syscall.ECONNRESET))
		}
		if c.in.finDelivered {
			n.logOp(c, "rEOF", 0)
			c.pair.mu.Unlock()
			return 0, io.EOF
		}
		var timer *time.Timer
		var tc <-chan time.Time
		if !c.rdl.IsZero() {
			d := time.Until(c.rdl)
			if d <= 0 {
				n.logOp(c, "rTO", 0)
				c.pair.mu.Unlock()
				return 0, opErr("read", c, os.ErrDeadlineExceeded)
			}
			timer = time.NewTimer(d)
			tc = timer.C
		}
		if c.rwake == nil {
			c.rwake = make(chan struct{})
		}
		ch := c.rwake
		c.pair.mu.Unlock()
		select {
		case <-ch:
		case <-tc:
		}
		if timer != nil {
			timer.Stop()
		}
		c.pair.mu.Lock()
	}
}

func (c *Conn) Write(b []byte) (int, error) {
	n := c.net
	c.pair.mu.Lock()
	defer c.pair.mu.Unlock()
	c.WriteOps++
	if c.Faults.WriteErrAt != 0 && c.WriteOps == c.Faults.WriteErrAt {
		n.fired("write_error_" + c.Faults.WriteErrKind)
		n.logOp(c, "wE", 0)
		return 0, opErr("write", c, faultErr(c.Faults.WriteErrKind, "write"))
	}
	if c.closed {
		return 0, opErr("write", c, net.ErrClosed)
	}
	if !c.wdl.IsZero() && !time.Now().Before(c.wdl) {
		// a write deadline that has passed fails the write at once, as the runtime's
		// poller does, although the write itself would not have blocked
		n.logOp(c, "wTO", 0)
		return 0, opErr("write", c, os.ErrDeadlineExceeded)
	}
	if c.out.broken {
		n.logOp(c, "wPIPE", 0)
		return 0, opErr("write", c, os.NewSyscallError("write", syscall.EPIPE))
	}
	c.out.inflight = append(c.out.inflight, b...)
	c.out.total += len(b)
	if c.Record {
		c.Written = append(c.Written, b...)
	}
	n.logOp(c, "w", len(b))
	return len(b), nil
}

func (c *Conn) Close() error {
	n := c.net
	c.pair.mu.Lock()
	defer c.pair.mu.Unlock()
	c.CloseCalls++
	if c.closed {
		return opErr("close", c, net.ErrClosed)
	}
	c.closed = true
	c.ClosedAt = time.Now()
	c.out.finQueued = true
	c.in.rcvClosed = true
	if len(c.in.inflight) > 0 || len(c.in.readable) > 0 {
		// unread data at close: the peer's next write fails
		c.in.broken = true
	}
	c.in.readable = nil
	n.logOp(c, "close", 0)
	c.wakeLocked()
	return nil
}

func (c *Conn) Closed() bool {
	c.pair.mu.Lock()
	defer c.pair.mu.Unlock()
	return c.closed
}

func (c *Conn) LocalAddr() net.Addr  { return c.local }
func (c *Conn) RemoteAddr() net.Addr { return c.remote }

func (c *Conn) deadlineFault() error {
	c.DeadlineOps++
	if c.Faults.DeadlineErrAt != 0 && c.DeadlineOps == c.Faults.DeadlineErrAt {
		c.net.fired("deadline_error")
		return opErr("set", c, fmt.Errorf("simnet: injected deadline failure"))
	}
	return nil
}

func (c *Conn) SetDeadline(t time.Time) error {
	if err := c.SetReadDeadline(t); err != nil {
		return err
	}
	c.pair.mu.Lock()
	c.wdl = t
	c.pair.mu.Unlock()
	return nil
}

func (c *Conn) SetReadDeadline(t time.Time) error {
	c.pair.mu.Lock()
	defer c.pair.mu.Unlock()
	if err := c.deadlineFault(); err != nil {
		return err
	}
	if c.closed {
		return opErr("set", c, net.ErrClosed)
	}
	c.rdl = t
	c.wakeLocked()
	return nil
}

func (c *Conn) SetWriteDeadline(t time.Time) error {
	c.pair.mu.Lock()
	defer c.pair.mu.Unlock()
	if err := c.deadlineFault(); err != nil {
		return err
	}
	if c.closed {
		return opErr("set", c, net.ErrClosed)
	}
	c.wdl = t
	return nil
}

// InflightFirst returns a copy of the first k in-flight bytes of c's output.
func (c *Conn) InflightLen() int {
	c.pair.mu.Lock()
	defer c.pair.mu.Unlock()
	return len(c.out.inflight)
}

func (c *Conn) PeekInflight() []byte {
	c.pair.mu.Lock()
	defer c.pair.mu.Unlock()
	return append([]byte(nil), c.out.inflight...)
}

// ---------------------------------------------------------------- listener

type Listener struct {
	net        *Net
	addr       net.Addr
	q          []*Conn
	wake       chan struct{}
	closed     bool
	CloseCalls int
	Accepted   int
}

func (n *Net) NewListener(addr net.Addr) *Listener {
	return &Listener{net: n, addr: addr}
}

func (l *Listener) Accept() (net.Conn, error) {
	n := l.net
	n.mu.Lock()
	for {
		if l.closed {
			n.mu.Unlock()
			return nil, &net.OpError{Op: "accept", Net: "tcp", Addr: l.addr, Err: net.ErrClosed}
		}
		if len(l.q) > 0 {
			c := l.q[0]
			l.q = l.q[1:]
			l.Accepted++
			n.mu.Unlock()
			return c, nil
		}
		if l.wake == nil {
			l.wake = make(chan struct{})
		}
		ch := l.wake
		n.mu.Unlock()
		<-ch
		n.mu.Lock()
	}
}

func (l *Listener) Close() error {
	n := l.net
	n.mu.Lock()
	defer n.mu.Unlock()
	l.CloseCalls++
	if l.closed {
		return &net.OpError{Op: "close", Net: "tcp", Addr: l.addr, Err: net.ErrClosed}
	}
	l.closed = true
	if l.wake != nil {
		close(l.wake)
		l.wake = nil
	}
	// queued, never accepted connections are reset
	for _, c := range l.q {
		c.pair.mu.Lock()
		c.closed = true
		c.out.rst = true
		c.in.broken = true
		c.in.rcvClosed = true
		c.peer().wakeLocked()
		c.pair.mu.Unlock()
	}
	l.q = nil
	return nil
}

func (l *Listener) Addr() net.Addr { return l.addr }

func (l *Listener) IsClosed() bool {
	l.net.mu.Lock()
	defer l.net.mu.Unlock()
	return l.closed
}

// Connect creates a pair and queues its acceptor side at the listener.
// A closed listener refuses the connection.
func (l *Listener) Connect(name string, from net.Addr) (*Conn, error) {
	l.net.mu.Lock()
	closed := l.closed
	l.net.mu.Unlock()
	if closed {
		return nil, &net.OpError{Op: "dial", Net: "tcp", Addr: l.addr, Err: os.NewSyscallError("connect", syscall.ECONNREFUSED)}
	}
	p := l.net.NewPair(name, from, l.addr)
	l.net.mu.Lock()
	defer l.net.mu.Unlock()
	l.q = append(l.q, p.B)
	if l.wake != nil {
		close(l.wake)
		l.wake = nil
	}
	return p.A, nil
}

// ------------------------------------------------------------------ dialer

type ctxKeyTag struct{}

// WithTag names the back-end connection a request will dial.
func WithTag(ctx context.Context, tag string) context.Context {
	return context.WithValue(ctx, ctxKeyTag{}, tag)
}

type Dialer struct {
	Net      *Net
	Backend  *Listener
	From     net.Addr
	RefuseAt map[int]bool  // dial indexes (1-based) that are refused
	Hold     time.Duration // every dial completes only after this much simulated time
	Dials    int
}

func (d *Dialer) DialContext(ctx context.Context, network, addr string) (net.Conn, error) {
	d.Net.mu.Lock()
	d.Dials++
	idx := d.Dials
	refuse := d.RefuseAt[idx]
	d.Net.mu.Unlock()
	if refuse {
		d.Net.mu.Lock()
		d.Net.fired("backend_refuse")
		d.Net.mu.Unlock()
		return nil, &net.OpError{Op: "dial", Net: "tcp", Err: os.NewSyscallError("connect", syscall.ECONNREFUSED)}
	}
	if d.Hold > 0 {
		// a connection attempt that takes its time (SYN lost and retransmitted, a slow path):
		// the caller waits, the clock runs
		d.Net.mu.Lock()
		d.Net.fired("backend_slow_dial")
		d.Net.mu.Unlock()
		tm := time.NewTimer(d.Hold)
		select {
		case <-tm.C:
		case <-ctx.Done():
			tm.Stop()
			return nil, ctx.Err()
		}
	}
	name := "be#"
	if tag, ok := ctx.Value(ctxKeyTag{}).(string); ok {
		name = "be:" + tag
	} else {
		name = fmt.Sprintf("be#%d", idx)
	}
	c, err := d.Backend.Connect(name, d.From)
	if err != nil {
		return nil, err
	}
	return c, nil
}

func tcpAddr(s string) net.Addr {
	host, port, err := net.SplitHostPort(s)
	if err != nil {
		panic(err)
	}
	var p int
	fmt.Sscanf(port, "%d", &p)
	return &net.TCPAddr{IP: net.ParseIP(host), Port: p}
}

package harness

// Engine C (simfs), C14: certwatcher against the real kernel (inotify) in a
// private temp directory.  The history of file operations is seeded; a
// sentinel file watched through the same fsnotify watcher gives a barrier
// after every step (DESIGN.md section 5).

import (
	"bytes"
	"context"
	"crypto/ecdsa"
	"crypto/elliptic"
	"crypto/rand"
	"crypto/tls"
	"crypto/x509"
	"crypto/x509/pkix"
	"encoding/pem"
	"fmt"
	"log"
	"math/big"
	"net"
	"os"
	"path/filepath"
	"strings"
	"sync"
	"time"

	fingerproxy "github.com/wi1dcard/fingerproxy"
	"github.com/wi1dcard/fingerproxy/pkg/certwatcher"
	"pgregory.net/rapid"
)

type pemPair struct {
	Cert, Key []byte
	DER       []byte
	Name      string
}

var (
	c14Pairs    []pemPair
	c14Once     sync.Once
	c14LogMu    sync.Mutex
	c14LogHook  func(line string)
	c14LogLines []string
)

type c14Writer struct{}

func (c14Writer) Write(p []byte) (int, error) {
	c14LogMu.Lock()
	hook := c14LogHook
	if len(c14LogLines) < 4000 {
		c14LogLines = append(c14LogLines, string(p))
	}
	c14LogMu.Unlock()
	if hook != nil {
		hook(string(p))
	}
	return len(p), nil
}

func genPair(name string, key *ecdsa.PrivateKey) pemPair {
	if key == nil {
		key, _ = ecdsa.GenerateKey(elliptic.P256(), rand.Reader)
	}
	serial, _ := rand.Int(rand.Reader, big.NewInt(1<<62))
	tmpl := &x509.Certificate{SerialNumber: serial, Subject: pkix.Name{CommonName: name}, NotBefore: time.Now().Add(-time.Hour), NotAfter: time.Now().Add(24 * time.Hour), DNSNames: []string{name}}
	der, err := x509.CreateCertificate(rand.Reader, tmpl, tmpl, &key.PublicKey, key)
	if err != nil {
		panic(err)
	}
	kb, _ := x509.MarshalECPrivateKey(key)
	return pemPair{Cert: pem.EncodeToMemory(&pem.Block{Type: "CERTIFICATE", Bytes: der}), Key: pem.EncodeToMemory(&pem.Block{Type: "EC PRIVATE KEY", Bytes: kb}), DER: der, Name: name}
}

func c14Init() {
	c14Once.Do(func() {
		for i := 0; i < 4; i++ {
			c14Pairs = append(c14Pairs, genPair(fmt.Sprintf("pair%d.verif.test", i), nil))
		}
		// renewal with the same key as pair0
		blk, _ := pem.Decode(c14Pairs[0].Key)
		k, _ := x509.ParseECPrivateKey(blk.Bytes)
		c14Pairs = append(c14Pairs, genPair("pair0-renewed.verif.test", k))
		certwatcher.Logger = log.New(c14Writer{}, "", 0)
		certwatcher.VerboseLogs = true
	})
}

// content ids: 0..4 = cert/key of that pair; -1 garbage; -2 empty; -3 half of pair (id in Arg)
type c14Op struct {
	Kind    string // inplace, partial, rename, swap, remove
	File    string // "crt" / "key" (not for swap)
	Content int
	Cut     int // partial: bytes written
	SwapKey int // swap: content of the key file in the new directory
}

func (o c14Op) String() string {
	switch o.Kind {
	case "swap":
		return fmt.Sprintf("swap(crt=%d,key=%d)", o.Content, o.SwapKey)
	case "partial":
		return fmt.Sprintf("partial(%s,%d,%dB)", o.File, o.Content, o.Cut)
	}
	return fmt.Sprintf("%s(%s,%d)", o.Kind, o.File, o.Content)
}

func c14Bytes(file string, content int) []byte {
	switch {
	case content == -1:
		return []byte("-----BEGIN CERTIFICATE-----\nnot base64 at all\n-----END CERTIFICATE-----\n")
	case content == -2:
		return nil
	case file == "crt":
		return c14Pairs[content].Cert
	default:
		return c14Pairs[content].Key
	}
}

// keyOf: which key a content id denotes (pair 4 shares the key of pair 0)
func c14KeyID(content int) int {
	if content == 4 {
		return 0
	}
	return content
}

func drawC14(t *rapid.T) *Case {
	layout := []string{"plain", "k8s"}[rapid.IntRange(0, 1).Draw(t, "layout")]
	// how the operator spelt the two paths: clean, or with a "." segment / a doubled
	// separator (same files; fsnotify reports events under the cleaned name)
	spelling := []string{"clean", "clean", "dot", "slashes"}[rapid.IntRange(0, 3).Draw(t, "spelling")]
	// 70%: the watcher is built the way the binary does it (-cert-filename / -certkey-filename,
	// initCertWatcher), otherwise with certwatcher.New on the same names
	wiring := drawBool(t, "wiring", 70)
	n := rapid.IntRange(1, 12).Draw(t, "nops")
	var ops []c14Op
	drawContent := func() int {
		if drawBool(t, "bad", 20) {
			return []int{-1, -2}[rapid.IntRange(0, 1).Draw(t, "badkind")]
		}
		return rapid.IntRange(0, 4).Draw(t, "pair")
	}
	for i := 0; i < n; i++ {
		file := []string{"crt", "key"}[rapid.IntRange(0, 1).Draw(t, "file")]
		if layout == "k8s" {
			a := drawContent()
			b := a
			if drawBool(t, "mismatch", 20) {
				b = drawContent()
			}
			ops = append(ops, c14Op{Kind: "swap", Content: a, SwapKey: b})
			continue
		}
		switch rapid.IntRange(0, 9).Draw(t, "kind") {
		case 0, 1, 2, 3:
			ops = append(ops, c14Op{Kind: "inplace", File: file, Content: drawContent()})
		case 4:
			ops = append(ops, c14Op{Kind: "partial", File: file, Content: rapid.IntRange(0, 4).Draw(t, "ppair"), Cut: rapid.IntRange(1, 200).Draw(t, "cut")})
		default:
			ops = append(ops, c14Op{Kind: "rename", File: file, Content: drawContent()})
		}
		// a pair update usually touches both files: follow up on the other file
		if drawBool(t, "both", 60) && len(ops) < 12 {
			last := ops[len(ops)-1]
			if last.Content >= 0 {
				other := "key"
				if last.File == "key" {
					other = "crt"
				}
				kind := last.Kind
				if kind == "partial" {
					kind = "inplace"
				}
				ops = append(ops, c14Op{Kind: kind, File: other, Content: last.Content})
			}
		}
	}
	if layout == "plain" && drawBool(t, "finalremove", 10) {
		ops = append(ops, c14Op{Kind: "remove", File: []string{"crt", "key"}[rapid.IntRange(0, 1).Draw(t, "rfile")]})
	}
	concurrent := drawBool(t, "concurrent", 50)
	c := &Case{}
	var parts []string
	for _, o := range ops {
		parts = append(parts, o.String())
	}
	c.Summary = fmt.Sprintf("layout=%s paths=%s through_flags=%v concurrent_handshakes=%v history: %s", layout, spelling, wiring, concurrent, strings.Join(parts, " "))
	c.DirectKey = c.Summary
	c.Direct = func(c *Case) []Violation {
		vs, st := runC14(layout, spelling, wiring, ops, concurrent)
		c.DirectStats = st
		return vs
	}
	return c
}

type barrierTimeout struct{ msg string }

func leafOf(cert *tls.Certificate) []byte {
	if cert == nil || len(cert.Certificate) == 0 {
		return nil
	}
	return cert.Certificate[0]
}

func pairMatches(cert *tls.Certificate) bool {
	if cert == nil || len(cert.Certificate) == 0 {
		return false
	}
	x, err := x509.ParseCertificate(cert.Certificate[0])
	if err != nil {
		return false
	}
	k, ok := cert.PrivateKey.(*ecdsa.PrivateKey)
	if !ok {
		return false
	}
	pub, ok := x.PublicKey.(*ecdsa.PublicKey)
	return ok && pub.Equal(&k.PublicKey)
}

func nameOfDER(der []byte) string {
	for _, p := range c14Pairs {
		if bytes.Equal(p.DER, der) {
			return p.Name
		}
	}
	return fmt.Sprintf("unknown certificate (%d bytes)", len(der))
}

// handshakeLeaf performs a real TLS handshake against GetCertificate.
// The server side uses the configuration the binary builds once at start-up
// (fingerproxy's defaultTLSConfig); the client names a server or, like a client that
// addresses the proxy by IP or a TCP-level health check, sends no server_name at all.
func handshakeLeaf(cfg *tls.Config, sni string) ([]byte, error) {
	a, b := net.Pipe()
	defer a.Close()
	defer b.Close()
	errc := make(chan error, 1)
	go func() {
		s := tls.Server(b, cfg)
		errc <- s.Handshake()
	}()
	cl := tls.Client(a, &tls.Config{InsecureSkipVerify: true, ServerName: sni})
	a.SetDeadline(time.Now().Add(10 * time.Second))
	b.SetDeadline(time.Now().Add(10 * time.Second))
	if err := cl.Handshake(); err != nil {
		<-errc
		return nil, err
	}
	<-errc
	return cl.ConnectionState().PeerCertificates[0].Raw, nil
}

var c14PollSticky bool

func runC14(layout, spelling string, wiring bool, ops []c14Op, concurrent bool) (vs []Violation, stats map[string]int) {
	c14Init()
	stats = map[string]int{}
	bad := func(class, format string, args ...any) {
		vs = append(vs, Violation{class, class, fmt.Sprintf(format, args...)})
	}
	base := os.Getenv("VERIF_FSDIR")
	if base == "" {
		base = os.TempDir()
	}
	dir, err := os.MkdirTemp(base, "verif-c14-")
	if err != nil {
		panic(err)
	}
	defer os.RemoveAll(dir)
	crt, key := filepath.Join(dir, "tls.crt"), filepath.Join(dir, "tls.key")
	version := 0
	newVersionDir := func(c, k int) string {
		version++
		d := filepath.Join(dir, fmt.Sprintf("..v%d", version))
		os.Mkdir(d, 0o755)
		os.WriteFile(filepath.Join(d, "tls.crt"), c14Bytes("crt", c), 0o644)
		os.WriteFile(filepath.Join(d, "tls.key"), c14Bytes("key", k), 0o644)
		return d
	}
	curCrt, curKey := 0, 0
	if layout == "k8s" {
		d := newVersionDir(0, 0)
		os.Symlink(filepath.Base(d), filepath.Join(dir, "..data"))
		os.Symlink(filepath.Join("..data", "tls.crt"), crt)
		os.Symlink(filepath.Join("..data", "tls.key"), key)
	} else {
		os.WriteFile(crt, c14Pairs[0].Cert, 0o644)
		os.WriteFile(key, c14Pairs[0].Key, 0o644)
	}

	crtArg, keyArg := crt, key
	switch spelling {
	case "dot":
		crtArg, keyArg = dir+"/./tls.crt", dir+"/./tls.key"
	case "slashes":
		crtArg, keyArg = dir+"//tls.crt", dir+"//tls.key"
	}
	// the watcher is built the way the binary builds it (flags -> initCertWatcher), or directly
	var cw *certwatcher.CertWatcher
	if wiring {
		cw, err = fingerproxy.VerifInitCertWatcher(crtArg, keyArg)
		stats["watcher_built_through_flags_and_initCertWatcher"]++
	} else {
		cw, err = certwatcher.New(crtArg, keyArg)
	}
	if err != nil {
		bad("harness", "certwatcher.New: %v", err)
		return
	}
	tlsCfg := fingerproxy.VerifTLSConfig(cw)
	ctx, cancel := context.WithCancel(context.Background())
	startDone := make(chan error, 1)
	go func() { startDone <- cw.Start(ctx) }()
	defer func() {
		cancel()
		select {
		case <-startDone:
		case <-time.After(5 * time.Second):
		}
	}()
	// start-up is sequenced too: wait until both paths are watched
	deadline := time.Now().Add(10 * time.Second)
	for len(cw.VerifWatcher().WatchList()) < 2 {
		if time.Now().After(deadline) {
			panic("HARNESS: certwatcher did not add its watches within 10s")
		}
		time.Sleep(200 * time.Microsecond)
	}

	// barrier: write the sentinel; when its "certificate event" line is logged every
	// earlier event has been handled and the sentinel's own reload has not happened yet
	// A fresh sentinel file per barrier, named by its sequence number, so that a
	// late second event of an earlier sentinel can never be taken for this one.
	snap := make(chan []byte, 4)
	reloaded := make(chan struct{}, 4)
	var wantSuffix string
	sawSentinel := false
	c14LogMu.Lock()
	c14LogHook = func(line string) {
		if strings.Contains(line, "updated current TLS certificate") || strings.Contains(line, "error re-reading certificate") {
			// the reload that follows the sentinel's own event is over: the watcher holds
			// no file open any more (an open descriptor delays IN_DELETE_SELF of a file that
			// the next step renames over, which could then arrive behind the next sentinel)
			c14LogMu.Lock()
			was := sawSentinel
			sawSentinel = false
			c14LogMu.Unlock()
			if was {
				select {
				case reloaded <- struct{}{}:
				default:
				}
			}
			return
		}
		if !strings.Contains(line, "certificate event") {
			return
		}
		c14LogMu.Lock()
		ws := wantSuffix
		hit := ws != "" && strings.Contains(line, ws)
		if hit {
			sawSentinel = true
		}
		c14LogMu.Unlock()
		if hit {
			c, _ := cw.GetCertificate(nil)
			select {
			case snap <- leafOf(c):
			default:
			}
		}
	}
	c14LogMu.Unlock()
	defer func() {
		c14LogMu.Lock()
		c14LogHook = nil
		c14LogMu.Unlock()
	}()
	// preferred: the event hooks the rewriter puts around the handling of one event in
	// Watch ("start" before the handler runs, "done" after it) - no dependence on log lines
	hooked := certwatcher.VerifHooksInserted
	if hooked {
		certwatcher.VerifEventHook = func(phase, evName string) {
			c14LogMu.Lock()
			ws := wantSuffix
			c14LogMu.Unlock()
			if ws == "" || !strings.HasSuffix(evName, ws) {
				return
			}
			if phase == "start" {
				c, _ := cw.GetCertificate(nil)
				select {
				case snap <- leafOf(c):
				default:
				}
			} else {
				select {
				case reloaded <- struct{}{}:
				default:
				}
			}
		}
		c14LogMu.Lock()
		c14LogHook = nil
		c14LogMu.Unlock()
		defer func() { certwatcher.VerifEventHook = nil }()
	}
	seq := 0
	prevSentinel := ""
	// fallback: a watcher that handles events differently from the pinned one (coalescing
	// them, say) may never report the sentinel's own event.  That is no defect in itself: from
	// then on the run does without barriers and simply polls, for up to 4 s of real time per
	// step (a reload takes milliseconds), until the expected pair is presented.
	pollMode := c14PollSticky // (once a worker process has met such a watcher, it stays with polling)
	poll := func(want []byte) []byte {
		deadline := time.Now().Add(2500 * time.Millisecond)
		for {
			c, _ := cw.GetCertificate(nil)
			l := leafOf(c)
			if bytes.Equal(l, want) || time.Now().After(deadline) {
				return l
			}
			time.Sleep(5 * time.Millisecond)
		}
	}
	barrier := func(want []byte) []byte {
		if pollMode {
			return poll(want)
		}
		seq++
		name := fmt.Sprintf("sentinel-%d-end", seq)
		path := filepath.Join(dir, name)
		os.WriteFile(path, []byte("x"), 0o644)
		for {
			select {
			case <-snap:
				continue
			case <-reloaded:
				continue
			default:
			}
			break
		}
		c14LogMu.Lock()
		wantSuffix = name
		c14LogMu.Unlock()
		if err := cw.VerifWatcher().Add(path); err != nil {
			panic("HARNESS: cannot watch sentinel: " + err.Error())
		}
		f, _ := os.OpenFile(path, os.O_WRONLY|os.O_APPEND, 0o644)
		f.Write([]byte("y"))
		f.Close()
		var l []byte
		select {
		case l = <-snap:
		case <-time.After(8 * time.Second):
			pollMode, c14PollSticky = true, true
			stats["barrier_fell_back_to_polling"]++
			return poll(want)
		}
		select {
		case <-reloaded:
		case <-time.After(8 * time.Second):
			pollMode, c14PollSticky = true, true
			stats["barrier_fell_back_to_polling"]++
			return poll(want)
		}
		if prevSentinel != "" {
			cw.VerifWatcher().Remove(prevSentinel)
			os.Remove(prevSentinel)
		}
		prevSentinel = path
		return l
	}

	valid := map[string]bool{string(c14Pairs[0].DER): true}
	lastGood := c14Pairs[0].DER
	stateValid := func() ([]byte, bool) {
		if curCrt >= 0 && curKey >= 0 && c14KeyID(curCrt) == c14KeyID(curKey) {
			return c14Pairs[curCrt].DER, true
		}
		return nil, false
	}
	partialOn := map[string]bool{}

	// free-running observers: safety clause only
	stop := make(chan struct{})
	var obsWG sync.WaitGroup
	var obsMu sync.Mutex
	var obsBad string
	var validMu sync.Mutex
	nobs := 0
	if concurrent {
		obsWG.Add(1)
		go func() {
			defer obsWG.Done()
			for {
				select {
				case <-stop:
					return
				default:
				}
				c, _ := cw.GetCertificate(nil)
				l := leafOf(c)
				validMu.Lock()
				ok := valid[string(l)]
				validMu.Unlock()
				nobs++
				if !ok || !pairMatches(c) {
					obsMu.Lock()
					if obsBad == "" {
						obsBad = fmt.Sprintf("a concurrent handshake was offered %s (key matches=%v), which never was a complete pair on disk", nameOfDER(l), pairMatches(c))
					}
					obsMu.Unlock()
				}
				time.Sleep(50 * time.Microsecond)
			}
		}()
	}

	type handedOut struct {
		ptr  *tls.Certificate
		der  []byte
		step int
	}
	var handed []handedOut
	check := func(step int, op string) bool {
		// the state after this step may become visible to observers at once
		if der, ok := stateValid(); ok && !partialOn["crt"] && !partialOn["key"] {
			validMu.Lock()
			valid[string(der)] = true
			validMu.Unlock()
		}
		want := lastGood
		if der, ok := stateValid(); ok && !partialOn["crt"] && !partialOn["key"] {
			want = der
		}
		got := barrier(want)
		if !valid[string(got)] {
			bad("unsafe_pair", "after step %d %s the proxy presents %s, which never existed on disk as a complete matching pair", step, op, nameOfDER(got))
			return false
		}
		c, _ := cw.GetCertificate(nil)
		if !pairMatches(c) {
			bad("torn_pair", "after step %d %s the certificate handed to handshakes does not match its private key", step, op)
			return false
		}
		// a pair that was handed to a handshake earlier must stay what it was: crypto/tls
		// keeps the pointer for the whole handshake, a reload must not rewrite it in place
		for _, h := range handed {
			if len(h.ptr.Certificate) == 0 || !bytes.Equal(h.ptr.Certificate[0], h.der) || !pairMatches(h.ptr) {
				bad("handed_out_pair_changed", "after step %d %s a certificate handed out at step %d (%s) was rewritten in place: a handshake still holding it presents a pair that never existed", step, op, h.step, nameOfDER(h.der))
				return false
			}
		}
		if c != nil && len(c.Certificate) > 0 {
			handed = append(handed, handedOut{c, append([]byte(nil), c.Certificate[0]...), step})
		}
		if !bytes.Equal(got, want) {
			if _, ok := stateValid(); ok && !partialOn["crt"] && !partialOn["key"] {
				bad("not_converged", "after step %d %s the files hold the valid pair %s but the proxy still presents %s", step, op, nameOfDER(want), nameOfDER(got))
			} else {
				bad("last_good_lost", "after step %d %s the files are not a valid pair; the proxy should keep presenting %s but presents %s", step, op, nameOfDER(want), nameOfDER(got))
			}
			return false
		}
		// the same through a real handshake
		if step%3 == 0 {
			sni := []string{"", "pair.verif.test"}[(step/3)%2]
			l, err := handshakeLeaf(tlsCfg, sni)
			if err != nil {
				bad("handshake_failed", "after step %d %s a TLS handshake (server_name %q) failed: %v", step, op, sni, err)
				return false
			}
			if !valid[string(l)] {
				bad("unsafe_pair", "after step %d %s a TLS handshake was offered %s", step, op, nameOfDER(l))
				return false
			}
			if !bytes.Equal(l, want) {
				bad("handshake_not_converged", "after step %d %s a new TLS handshake (server_name %q) was offered %s, the pair in place is %s", step, op, sni, nameOfDER(l), nameOfDER(want))
				return false
			}
			stats["handshakes"]++
			if sni == "" {
				stats["handshakes_without_server_name"]++
			}
		}
		lastGood = want
		return true
	}

	if !check(0, "start") {
		close(stop)
		obsWG.Wait()
		return
	}
	for i, op := range ops {
		path := crt
		if op.File == "key" {
			path = key
		}
		// the model first: observers may see the new pair while the step is still running
		prevPartial := map[string]bool{"crt": partialOn["crt"], "key": partialOn["key"]}
		_ = prevPartial
		switch op.Kind {
		case "swap":
			curCrt, curKey = op.Content, op.SwapKey
		case "remove":
			if op.File == "crt" {
				curCrt = -2
			} else {
				curKey = -2
			}
		default:
			if op.File == "crt" {
				curCrt = op.Content
			} else {
				curKey = op.Content
			}
		}
		switch op.Kind {
		case "inplace", "rename":
			partialOn[op.File] = false
		case "partial":
			partialOn[op.File] = true
		}
		if der, ok := stateValid(); ok && !partialOn["crt"] && !partialOn["key"] {
			validMu.Lock()
			valid[string(der)] = true
			validMu.Unlock()
		}
		switch op.Kind {
		case "inplace":
			f, err := os.OpenFile(path, os.O_WRONLY|os.O_TRUNC, 0o644)
			if err != nil {
				panic(err)
			}
			f.Write(c14Bytes(op.File, op.Content))
			f.Close()
			partialOn[op.File] = false
			stats["inplace_writes"]++
		case "partial":
			b := c14Bytes(op.File, op.Content)
			k := op.Cut
			if k >= len(b) {
				k = len(b) - 1
			}
			f, err := os.OpenFile(path, os.O_WRONLY|os.O_TRUNC, 0o644)
			if err != nil {
				panic(err)
			}
			f.Write(b[:k])
			f.Close()
			partialOn[op.File] = true
			stats["partial_writes"]++
		case "rename":
			tmp := path + ".tmp"
			os.WriteFile(tmp, c14Bytes(op.File, op.Content), 0o644)
			if err := os.Rename(tmp, path); err != nil {
				panic(err)
			}
			partialOn[op.File] = false
			stats["rename_over"]++
		case "swap":
			old, _ := os.Readlink(filepath.Join(dir, "..data"))
			d := newVersionDir(op.Content, op.SwapKey)
			tmp := filepath.Join(dir, "..data_tmp")
			os.Symlink(filepath.Base(d), tmp)
			if err := os.Rename(tmp, filepath.Join(dir, "..data")); err != nil {
				panic(err)
			}
			os.RemoveAll(filepath.Join(dir, old)) // kubelet removes the old directory
			stats["symlink_swaps"]++
		case "remove":
			os.Remove(path)
			stats["final_removals"]++
		}
		if !check(i+1, op.String()) {
			break
		}
		stats["steps"]++
	}
	close(stop)
	obsWG.Wait()
	obsMu.Lock()
	if obsBad != "" {
		bad("unsafe_pair_concurrent", "%s", obsBad)
	}
	obsMu.Unlock()
	stats["concurrent_observations"] += nobs
	return
}

func init() {
	register(&CheckDef{ID: "C14", Level: "exploration", Engine: "C", Draw: drawC14,
		Rule: "engine C: the real certwatcher + fsnotify against the real kernel in a private temp directory; in 70% of the runs the watcher is built from the command-line flags through fingerproxy's initCertWatcher, and handshakes go through its defaultTLSConfig. Seeded histories of 1-12 steps on the two watched paths: in-place truncate+write (valid pair member, garbage, empty), partial in-place write, write-new + rename-over, Kubernetes-style symlinked-directory swap (with removal of the old directory), either file order, mismatched pairs, renewal with the same key, a removal only as the final step; 5 distinct pairs. After every step a sentinel file watched through the same fsnotify watcher gives a barrier (its 'certificate event' log line is written before its own reload) at which the presented pair is snapshotted; every third barrier also performs a real TLS handshake over net.Pipe; optionally a free-running observer checks the safety clause during the steps. Oracle: presented pair matches its key and existed on disk as a complete matching pair; after a step that leaves a valid pair in place it is that pair; otherwise the last good pair. Distinct: distinct histories."})
}

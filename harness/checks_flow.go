package harness

// C12 (flow control, server side) and C20 (write schedulers, in situ): a
// raw-frame client requests bodies of seeded sizes on many streams and
// controls every window; the server's DATA frames are checked against refwin,
// a peer-side ledger.

import (
	"bytes"
	"encoding/binary"
	"fmt"
	"os"
	"strings"

	"github.com/wi1dcard/fingerproxy/pkg/http2"
	"pgregory.net/rapid"
)

type flowEvent struct {
	Kind   string // wu, settings, rst
	Stream uint32
	Inc    uint32
	IWS    int64 // settings: new INITIAL_WINDOW_SIZE or -1
	MFS    int64 // settings: new MAX_FRAME_SIZE or -1
	Write  int   // index of the client "write" step carrying it
}

type flowAux struct {
	NegPosWant              int // negative-then-positive focus: body bytes due at the mark
	Events                  []flowEvent
	UploadBehindEarlyAnswer int
	EarlyPause              int               // the early-answer focus with a pause
	EarlyShut               int               // one early-answered 300 kB upload under a stream window of 0
	Streams                 map[uint32]string // stream id -> tag (GET downloads)
	Bodies                  map[string][]byte // expected response bodies
	Uploads                 map[uint32]int    // stream id -> request body bytes sent (incl. padding)
	UploadTags              map[uint32]string
	ClientReset             map[uint32]bool
	EarlyAnswer             map[string]bool // tags the back-end answers without reading the upload
	ServerReset             []uint32        // streams the client made the server reset (zero WINDOW_UPDATE)
	Overdeclared            int
	ConnOverflow            bool
	UploadOverrun           uint32 // stream on which the client exceeds the server's window (0: none)
	NStreams                int
}

func bodyBytes(tag string, n int) []byte {
	b := make([]byte, n)
	seed := 0
	for _, c := range tag {
		seed += int(c)
	}
	for i := range b {
		b[i] = byte('A' + (i*7+seed)%53)
	}
	return b
}

func drawFlow(t *rapid.T, check string) *Case {
	p := &Plan{Check: check, Backend: BackendPlan{Resp: map[string]*RespPlan{}}, Budget: 60000}
	aux := &flowAux{Streams: map[uint32]string{}, Bodies: map[string][]byte{}, Uploads: map[uint32]int{}, UploadTags: map[uint32]string{}, ClientReset: map[uint32]bool{}, EarlyAnswer: map[string]bool{}}
	enc := NewHEnc()
	cp := &ClientPlan{ID: 0, Addr: "198.51.100.10:32000", Hello: fixedHello("h2")}
	var steps []Step
	nwrite := 0
	write := func(fs ...Frame) {
		steps = append(steps, Step{Kind: "write", Pieces: [][]byte{FramesBytes(fs...)}})
		nwrite++
	}
	steps = append(steps, Step{Kind: "connect"})

	// scheduler under the server
	p.SchedKind = []string{"rr", "priority", "random"}[rapid.IntRange(0, 2).Draw(t, "sched")]
	if p.SchedKind == "priority" && drawBool(t, "schedcfg", 60) {
		p.SchedCfg = &http2.PriorityWriteSchedulerConfig{
			MaxClosedNodesInTree:     rapid.IntRange(0, 4).Draw(t, "maxclosed"),
			MaxIdleNodesInTree:       rapid.IntRange(0, 4).Draw(t, "maxidle"),
			ThrottleOutOfOrderWrites: drawBool(t, "throttle", 50),
		}
	}
	p.SchedMonitor = check == "C20"
	// (until wave 7: no periodic flush and Content-Length on every response, because a wait
	// for maxLatencyWriter's mutex - held across a write blocked on flow control - kept the
	// bubble from becoming quiescent)
	// flush interval of the reverse proxy: none / the flag's default / a short period / immediate
	// (periodic flushing under closed windows: a timer goroutine waits for maxLatencyWriter's
	// mutex while the handler is blocked on flow control - simulated since lock waits count
	// as blocked, DESIGN 15.5b)
	switch rapid.IntRange(0, 9).Draw(t, "flushinterval") {
	case 0, 1, 2, 3, 4, 5:
		p.Args = []string{"-reverse-proxy-flush-interval", "0s"}
	case 6:
		p.Args = nil
	case 7, 8:
		p.Args = []string{"-reverse-proxy-flush-interval", []string{"1ms", "20ms", "3s"}[rapid.IntRange(0, 2).Draw(t, "flushperiod")]}
	default:
		p.Args = []string{"-reverse-proxy-flush-interval", "-1ns"}
	}

	if check == "C12" && (drawBool(t, "negpos", 3) || osGetenv("VERIF_C12_NEGPOS") != "") {
		// a stream window driven negative by a SETTINGS change and then opened again by a
		// WINDOW_UPDATE of the client, which thereafter stays quiet: the data the window now
		// permits has to arrive without any further frame from the client
		w0 := []int{1, 4000, 10000, 16384}[rapid.IntRange(0, 3).Draw(t, "negposw0")]
		plus := rapid.IntRange(1, 20000).Draw(t, "negposplus")
		tag := "c0-f0"
		body := bodyBytes(tag, w0+plus+rapid.IntRange(1, 30000).Draw(t, "negposrest"))
		p.Backend.Resp[tag] = &RespPlan{Status: 200, Body: body}
		aux.Bodies[tag] = body
		aux.Streams[1] = tag
		aux.NStreams = 1
		steps = append(steps, Step{Kind: "write", Pieces: [][]byte{append([]byte(ClientPreface), FramesBytes(SettingsFrame(Setting{4, uint32(w0)}))...)}})
		aux.Events = append(aux.Events, flowEvent{Kind: "settings", IWS: int64(w0), MFS: 16384, Write: nwrite})
		nwrite++
		fields := [][2]string{{":method", "GET"}, {":scheme", "https"}, {":authority", "fc.verif.test"}, {":path", "/" + tag}, {"x-tag", tag}}
		write(HeadersFrames(1, enc.Block(fields), true, nil, -1, nil)...)
		// wait until the first window is used up, then shut the window below zero ...
		steps = append(steps, Step{Kind: "h2bytes", Streams: []uint32{1}, DelayMS: w0})
		write(SettingsFrame(Setting{4, 0}))
		aux.Events = append(aux.Events, flowEvent{Kind: "settings", IWS: 0, MFS: -1, Write: nwrite - 1})
		// ... and open it again: -w0 + (w0 + plus) = plus
		write(WindowUpdateFrame(1, uint32(w0+plus)))
		aux.Events = append(aux.Events, flowEvent{Kind: "wu", Stream: 1, Inc: uint32(w0 + plus), Write: nwrite - 1})
		steps = append(steps, Step{Kind: "sleep", DelayMS: 2000}, Step{Kind: "h2mark", Streams: []uint32{1}})
		aux.NegPosWant = w0 + plus
		// the rest
		write(SettingsFrame(Setting{4, 1 << 20}), WindowUpdateFrame(0, 1<<20))
		aux.Events = append(aux.Events, flowEvent{Kind: "settings", IWS: 1 << 20, MFS: -1, Write: nwrite - 1}, flowEvent{Kind: "wu", Stream: 0, Inc: 1 << 20, Write: nwrite - 1})
		steps = append(steps, Step{Kind: "h2await", Streams: []uint32{1}}, Step{Kind: "close"})
		cp.Steps = steps
		p.Clients = []*ClientPlan{cp}
		p.Fences = drawBool(t, "fences", 30)
		p.Tape, p.Tail = drawTape(t, 64)
		c := &Case{Plan: p, Metas: []*ClientMeta{{Proto: "h2"}}, Aux: aux, Oracle: oracleC12}
		c.Summary = fmt.Sprintf("scheduler=%s: download under a stream window of %d, SETTINGS_INITIAL_WINDOW_SIZE 0 once it is used up (window -%d), WINDOW_UPDATE +%d, then silence for 2 s", p.SchedKind, w0, w0, w0+plus)
		c.Nontrivial = func(w *World, c *Case) bool { return len(w.Clients[0].Marks) > 0 }
		return c
	}
	iws := int64([]int{0, 1, 100, 16384, 65535, 1 << 20}[rapid.IntRange(0, 5).Draw(t, "iws0")])
	// focus (4% of C12 runs): the back-end answers early without reading an upload while the
	// client's stream window is shut, so the stream stays open with its request body closed
	// by the proxy's own transport, and a storm of padded DATA keeps arriving on it
	earlyFocus := check == "C12" && (drawBool(t, "earlyfocus", 4) || osGetenv("VERIF_C12_EARLY") != "")
	if earlyFocus {
		iws = 0
	}
	// 2% (C12): eight uploads in a row that the back-end answers early and then hangs up on -
	// see below; what each of them leaks, if anything, adds up on the connection
	earlyClose := check == "C12" && !earlyFocus && (drawBool(t, "earlyclose", 2) || osGetenv("VERIF_C12_EARLYCLOSE") != "")
	// half of them: ONE such upload under a stream window of 0 - the answer cannot leave, the handler
	// stays blocked in Write with the request body closed under it for as long as the client likes
	earlyShut := false
	if earlyClose {
		iws = 1 << 20 // each answer has to get through before the next upload starts
		// (this variant found defect D14: the stream's WINDOW_UPDATEs wait behind the blocked
		// answer; when the answer's last frame is written asynchronously and unread upload
		// bytes are credited to the connection on close, the scheduler handed out a frame of
		// the stream that had just been closed - startFrameWrite panicked)
		if earlyShut = drawBool(t, "earlyshut", 50) || osGetenv("VERIF_C12_EARLYSHUT") != ""; earlyShut {
			iws = 0
		}
	}
	mfs := int64(16384)
	set := []Setting{{4, uint32(iws)}}
	if drawBool(t, "mfs0", 30) {
		mfs = int64([]int{16384, 20000, 1 << 16}[rapid.IntRange(0, 2).Draw(t, "mfsv")])
		set = append(set, Setting{5, uint32(mfs)})
	}
	steps = append(steps, Step{Kind: "write", Pieces: [][]byte{append([]byte(ClientPreface), FramesBytes(SettingsFrame(set...))...)}})
	aux.Events = append(aux.Events, flowEvent{Kind: "settings", IWS: iws, MFS: mfs, Write: nwrite})
	nwrite++
	if earlyClose {
		steps = append(steps, Step{Kind: "write", Pieces: [][]byte{FramesBytes(WindowUpdateFrame(0, 1<<24))}})
		aux.Events = append(aux.Events, flowEvent{Kind: "wu", Stream: 0, Inc: 1 << 24, Write: nwrite})
		nwrite++
	}

	if check == "C12" && drawBool(t, "overrun", 3) {
		// the peer exceeds the window the server advertised: the handler is parked before
		// it forwards anything, so nothing is read and no credit comes back
		p.ParkInjector = true
		tag := "c0-over"
		fields := [][2]string{{":method", "POST"}, {":scheme", "https"}, {":authority", "fc.verif.test"}, {":path", "/" + tag}, {"x-tag", tag}}
		fs := HeadersFrames(1, enc.Block(fields), false, nil, -1, nil)
		const advertised = 1 << 20 // checked against the server's SETTINGS at run time
		chunk := bodyBytes(tag, 16384)
		for sent := 0; sent < advertised; sent += 16384 {
			fs = append(fs, DataFrame(1, chunk, false, -1))
		}
		fs = append(fs, DataFrame(1, []byte("x"), false, -1))
		aux.UploadOverrun = 1
		write(fs...)
		steps = append(steps, Step{Kind: "h2await", Streams: []uint32{1}}, Step{Kind: "close"})
		cp.Steps = steps
		p.Clients = []*ClientPlan{cp}
		p.Tape, p.Tail = drawTape(t, 32)
		c := &Case{Plan: p, Metas: []*ClientMeta{{Proto: "h2"}}, Aux: aux, Oracle: oracleC12}
		c.Summary = "upload of advertised stream window + 1 byte while the handler reads nothing"
		c.Nontrivial = func(w *World, c *Case) bool { return len(w.Clients[0].Recv) > 0 }
		return c
	}
	if check == "C12" && (drawBool(t, "abandon", 4) || osGetenv("VERIF_C12_ABANDON") != "") {
		// uploads into a handler that reads a little, closes the request body and stays busy: the
		// stream is open, its body closed, and everything the client goes on sending - small,
		// maximally padded DATA frames, hundreds of them - is discarded there and has to be
		// credited to the connection window with its padding
		k := rapid.IntRange(1, 4).Draw(t, "abandonstreams")
		if iws < 100 {
			// the short answers have to get through
			write(SettingsFrame(Setting{4, 1 << 20}))
			aux.Events = append(aux.Events, flowEvent{Kind: "settings", IWS: 1 << 20, MFS: -1, Write: nwrite - 1})
		}
		p.LocalAbandon = map[string]AbandonPlan{}
		id := uint32(1)
		for i := 0; i < k; i++ {
			tag := fmt.Sprintf("c0-a%d", i)
			first := rapid.IntRange(1, 3000).Draw(t, "abandonfirst")
			p.LocalAbandon[tag] = AbandonPlan{ReadBytes: rapid.IntRange(0, first).Draw(t, "abandonread"), HoldMS: rapid.IntRange(1, 5000).Draw(t, "abandonhold")}
			fields := [][2]string{{":method", "POST"}, {":scheme", "https"}, {":authority", "fc.verif.test"}, {":path", "/" + tag}, {"x-tag", tag}}
			fs := HeadersFrames(id, enc.Block(fields), false, nil, -1, nil)
			f0 := DataFrame(id, bodyBytes(tag, first), false, -1)
			sent := len(f0.Payload)
			write(append(fs, f0)...)
			steps = append(steps, Step{Kind: "h2headers", Streams: []uint32{id}})
			nf := rapid.IntRange(80, 400).Draw(t, "abandonframes")
			var storm []Frame
			for j := 0; j < nf; j++ {
				f := DataFrame(id, bodyBytes(tag, rapid.IntRange(0, 64).Draw(t, "abandondsz")), j == nf-1 && drawBool(t, "abandonend", 50), rapid.IntRange(0, 255).Draw(t, "abandonpad"))
				sent += len(f.Payload)
				storm = append(storm, f)
			}
			cut := rapid.IntRange(1, len(storm)).Draw(t, "abandoncut")
			write(storm[:cut]...)
			if cut < len(storm) {
				write(storm[cut:]...)
			}
			steps = append(steps, Step{Kind: "h2await", Streams: []uint32{id}})
			aux.Streams[id] = tag
			aux.Bodies[tag] = []byte("abandoned:" + tag)
			aux.Uploads[id] = sent
			aux.UploadTags[id] = tag
			id += 2
		}
		aux.NStreams = k
		steps = append(steps, Step{Kind: "write", Pieces: [][]byte{FramesBytes(PingFrame(false, [8]byte{0xfc}))}, WhenQuiet: true})
		steps = append(steps, Step{Kind: "h2ping", WhenQuiet: true}, Step{Kind: "close"})
		cp.Steps = steps
		p.Clients = []*ClientPlan{cp}
		p.Fences = drawBool(t, "fences", 20)
		p.Tape, p.Tail = drawTape(t, 64)
		c := &Case{Plan: p, Metas: []*ClientMeta{{Proto: "h2"}}, Aux: aux, Oracle: oracleC12}
		c.Summary = fmt.Sprintf("abandoned bodies: %d uploads into a handler (stub of a library user's) that closes the request body and stays busy while 80-400 padded DATA frames arrive on the open stream", k)
		c.Nontrivial = func(w *World, c *Case) bool { return len(w.Clients[0].Recv) > 3 }
		return c
	}
	if check == "C12" && drawBool(t, "abortstorm", 5) {
		// a long history of uploads that the client cancels while the handler is copying
		// the body: HEADERS + 8 KiB, later 16 x 2 KiB DATA and RST_STREAM in one TLS write
		k := rapid.IntRange(30, 90).Draw(t, "stormlen")
		id := uint32(1)
		for i := 0; i < k; i++ {
			tag := fmt.Sprintf("c0-s%d", i)
			fields := [][2]string{{":method", "POST"}, {":scheme", "https"}, {":authority", "fc.verif.test"}, {":path", "/" + tag}, {"x-tag", tag}}
			fs := HeadersFrames(id, enc.Block(fields), false, nil, -1, nil)
			fs = append(fs, DataFrame(id, bodyBytes(tag, 8192), false, -1))
			write(fs...)
			var burst []Frame
			for j := 0; j < 16; j++ {
				burst = append(burst, DataFrame(id, bodyBytes(tag, 2048), false, -1))
			}
			burst = append(burst, RSTFrame(id, ErrCancel))
			steps = append(steps, Step{Kind: "write", Pieces: [][]byte{FramesBytes(burst...)}, WhenQuiet: drawBool(t, "stormquiet", 70)})
			nwrite++
			aux.Uploads[id] = 8192 + 16*2048
			aux.ClientReset[id] = true
			id += 2
		}
		steps = append(steps, Step{Kind: "write", Pieces: [][]byte{FramesBytes(PingFrame(false, [8]byte{0xfc}))}, WhenQuiet: true})
		steps = append(steps, Step{Kind: "h2ping", WhenQuiet: true}, Step{Kind: "close"})
		cp.Steps = steps
		p.Clients = []*ClientPlan{cp}
		p.Fences = drawBool(t, "fences", 20)
		p.BodyReadFences = drawBool(t, "bodyreadfences", 80)
		p.Tape, p.Tail = drawTape(t, 64)
		c := &Case{Plan: p, Metas: []*ClientMeta{{Proto: "h2"}}, Aux: aux, Oracle: oracleC12}
		c.Summary = fmt.Sprintf("abort storm: %d uploads of 40 KiB cancelled by RST_STREAM behind their last DATA frames while the handler copies the body", k)
		c.Nontrivial = func(w *World, c *Case) bool { return len(w.Clients[0].Recv) > 3 }
		return c
	}
	// requests
	n := rapid.IntRange(1, 8).Draw(t, "nstreams")
	if drawBool(t, "many", 5) {
		n = rapid.IntRange(20, 120).Draw(t, "manystreams")
	}
	if earlyClose {
		n = 8
		if earlyShut {
			n = 1
		}
	}
	aux.NStreams = n
	next := uint32(1)
	var all []uint32
	totalDown := 0
	var downIDs []uint32
	for i := 0; i < n; i++ {
		id := next
		next += 2
		tag := fmt.Sprintf("c0-f%d", i)
		all = append(all, id)
		if earlyClose {
			// an upload the back-end answers at once, with a large response, and whose body is
			// too long for the back-end to drain after its handler has returned (net/http gives
			// up after 256 KiB and closes): the reverse proxy's transport then closes the request
			// body while the response is still streaming to the client - the stream is open,
			// its handler has abandoned the body - and the rest of the upload, small maximally
			// padded DATA frames sent once the response has begun to arrive, is discarded there
			tail := 6400
			if earlyShut {
				tail = 64 * rapid.IntRange(100, 400).Draw(t, "earlyshutframes")
			}
			body := bodyBytes(tag, 300000+tail)
			fields := [][2]string{{":method", "POST"}, {":scheme", "https"}, {":authority", "fc.verif.test"}, {":path", "/" + tag}, {"x-tag", tag}}
			fs0 := HeadersFrames(id, enc.Block(fields), false, nil, -1, nil)
			sent := 0
			for off := 0; off < 300000; off += 16384 {
				f := DataFrame(id, body[off:min(off+16384, 300000)], false, -1)
				sent += len(f.Payload)
				fs0 = append(fs0, f)
			}
			var fs1 []Frame
			for off := 300000; off < len(body); off += 64 {
				f := DataFrame(id, body[off:off+64], off+64 == len(body), 255)
				sent += len(f.Payload)
				fs1 = append(fs1, f)
			}
			early := bodyBytes("early-"+tag, []int{20000, 150000}[rapid.IntRange(0, 1).Draw(t, "earlyclosesz")])
			if earlyShut {
				// short enough for the proxy to have read it to its end before it blocks on the
				// client's window: only then is its transport done with the back-end connection
				// (4000-4096: one DATA frame that fills the handler's 4 KiB buffer and does not fit
				// into what is left of the connection's write buffer - written asynchronously)
				early = bodyBytes("early-"+tag, []int{1, 100, 3000, 20000, 4000, 4080, 4096, 4097}[rapid.IntRange(0, 7).Draw(t, "earlyshutsz")])
			}
			// (the client's stream window must let the answer through, or the next upload never starts)
			totalDown += len(early)
			p.Backend.Resp[tag] = &RespPlan{Status: 200, Body: early, NoRead: true}
			aux.Bodies[tag] = early
			aux.EarlyAnswer[tag] = true
			aux.Streams[id] = tag
			aux.Uploads[id] = sent
			aux.UploadTags[id] = tag
			aux.UploadBehindEarlyAnswer++
			write(fs0...)
			steps = append(steps, Step{Kind: "h2headers", Streams: []uint32{id}})
			if earlyShut {
				// the back-end's hang-up reaches the proxy, whose transport closes the request body
				steps = append(steps, Step{Kind: "sleep", DelayMS: rapid.IntRange(1, 300).Draw(t, "earlyshutpause")})
				aux.EarlyShut++
			}
			write(fs1...)
			// one after the other (the raw client does not pace itself by the server's windows)
			if !earlyShut {
				steps = append(steps, Step{Kind: "h2await", Streams: []uint32{id}})
			}
			continue
		}
		if (earlyFocus && i == 0) || drawBool(t, "upload", 35) {
			// POST with a body: exercises the server's receive windows / credit return
			sz := []int{0, 1, 100, 5000, 40000, 120000}[rapid.IntRange(0, 5).Draw(t, "upsz")]
			if n > 20 {
				sz = rapid.IntRange(0, 30000).Draw(t, "upszsmall")
			}
			body := bodyBytes(tag, sz)
			fields := [][2]string{{":method", "POST"}, {":scheme", "https"}, {":authority", "fc.verif.test"}, {":path", "/" + tag}, {"x-tag", tag}}
			overdeclared := check == "C12" && sz >= 100 && !(earlyFocus && i == 0) && drawBool(t, "overdeclared", 15)
			if overdeclared {
				// the body is longer than the declared content-length: the server resets the stream
				// when the excess arrives and has to discard (and give credit for) what follows
				fields = append(fields, [2]string{"content-length", fmt.Sprint(sz / 8)})
			}
			fs := HeadersFrames(id, enc.Block(fields), sz == 0, nil, -1, nil)
			// a storm of small, maximally padded frames: padding is flow-controlled too, and what is
			// discarded (body already closed by the handler) has to be credited with its padding
			if earlyFocus && i == 0 {
				sz = 40000
				body = bodyBytes(tag, sz)
			}
			padstorm := check == "C12" && sz >= 5000 && n <= 20 && ((earlyFocus && i == 0) || drawBool(t, "padstorm", 12))
			if padstorm && sz > 40000 {
				body = body[:40000]
			}
			sent := 0
			rest := body
			for len(rest) > 0 {
				k := rapid.IntRange(1, 16384).Draw(t, "dsz")
				if padstorm {
					k = 64
				}
				if k > len(rest) {
					k = len(rest)
				}
				pad := -1
				if padstorm {
					pad = 255
				} else if drawBool(t, "dpad", 25) {
					pad = rapid.IntRange(0, 200).Draw(t, "dpadlen")
					if k+pad+1 > 16384 {
						pad = -1
					}
				}
				f := DataFrame(id, rest[:k], k == len(rest), pad)
				sent += len(f.Payload)
				fs = append(fs, f)
				rest = rest[k:]
			}
			if overdeclared {
				aux.ClientReset[id] = true // not awaited, not compared: the server resets it
				aux.Uploads[id] = sent
				aux.UploadTags[id] = tag
				aux.Streams[id] = tag
				aux.Bodies[tag] = nil
				aux.Overdeclared++
				cut := rapid.IntRange(1, len(fs)).Draw(t, "upcut")
				write(fs[:cut]...)
				if cut < len(fs) {
					write(fs[cut:]...)
				}
				continue
			}
			if sz > 0 && !(earlyFocus && i == 0) && drawBool(t, "upabort", 30) {
				// the client cancels the upload right behind its last DATA frame (same TLS write):
				// the reset meets a handler that is still reading the body
				last := len(fs) - 1
				fs[last].Flags &^= FlagEndStream
				fs = append(fs, RSTFrame(id, ErrCancel))
				aux.ClientReset[id] = true
				aux.Uploads[id] = sent
				aux.UploadTags[id] = tag
				aux.Streams[id] = tag
				aux.Bodies[tag] = nil
				write(fs...)
				continue
			}
			aux.Uploads[id] = sent
			aux.UploadTags[id] = tag
			if (earlyFocus && i == 0) || drawBool(t, "noread", 20) {
				// the back-end answers without reading the body: the proxy has to discard it
				early := []byte("early:" + tag)
				if drawBool(t, "earlybig", 50) {
					// a large early answer: under the client's windows it keeps the stream open for
					// a long while after the handler has closed the request body, and the rest of
					// the upload (padding included) arrives in that state and is discarded
					early = bodyBytes("early-"+tag, []int{20000, 70000, 150000}[rapid.IntRange(0, 2).Draw(t, "earlybigsz")])
					totalDown += len(early)
				}
				p.Backend.Resp[tag] = &RespPlan{Status: 200, Body: early, NoRead: true}
				aux.Bodies[tag] = early
				aux.EarlyAnswer[tag] = true
			} else {
				aux.Bodies[tag] = []byte("ok:" + tag)
			}
			aux.Streams[id] = tag
			if earlyFocus && i == 0 && len(aux.Bodies[tag]) <= 1000 && len(fs) > 3 && (drawBool(t, "earlypause", 50) || osGetenv("VERIF_C12_EARLYPAUSE") != "") {
				// a short early answer that the proxy has read to its end while the client's stream
				// window (0) keeps it from being passed on: the outbound transport, done with the
				// response, gives the unfinished request write a moment, then drops the back-end
				// connection and closes the request body - the handler stays blocked in Write, the
				// stream stays open for as long as the client likes.  The client pauses for longer
				// than that moment and then sends the rest of its maximally padded upload: hundreds
				// of frames are discarded in that state, each to be credited with its padding.
				cut := rapid.IntRange(2, min(len(fs)-1, 12)).Draw(t, "earlycut")
				write(fs[:cut]...)
				steps = append(steps, Step{Kind: "h2headers", Streams: []uint32{id}}, Step{Kind: "sleep", DelayMS: rapid.IntRange(60, 400).Draw(t, "earlypause")})
				write(fs[cut:]...)
				aux.UploadBehindEarlyAnswer++
				aux.EarlyPause++
				continue
			}
			if aux.EarlyAnswer[tag] && len(aux.Bodies[tag]) > 1000 && len(fs) > 3 {
				// the client goes on uploading after the early answer has begun to arrive: the
				// rest of the body meets a stream that is open while its handler has closed
				// the request body
				cut := rapid.IntRange(2, min(len(fs)-1, 12)).Draw(t, "earlycut")
				write(fs[:cut]...)
				steps = append(steps, Step{Kind: "h2headers", Streams: []uint32{id}})
				write(fs[cut:]...)
				aux.UploadBehindEarlyAnswer++
				continue
			}
			// send in 1-3 writes
			cut := rapid.IntRange(1, len(fs)).Draw(t, "upcut")
			write(fs[:cut]...)
			if cut < len(fs) {
				write(fs[cut:]...)
			}
			continue
		}
		sz := []int{0, 1, 100, 16384, 16385, 65535, 65536, 100000, 300000}[rapid.IntRange(0, 8).Draw(t, "downsz")]
		if drawBool(t, "downrand", 30) {
			sz = rapid.IntRange(0, 200000).Draw(t, "downszr")
		}
		if n > 20 {
			sz = rapid.IntRange(0, 4000).Draw(t, "downszsmall")
		}
		body := bodyBytes(tag, sz)
		rp := &RespPlan{Status: 200, Body: body}
		if drawBool(t, "chunks", 40) {
			for k := 0; k < 4; k++ {
				rp.Chunks = append(rp.Chunks, rapid.IntRange(1, 40000).Draw(t, "chunk"))
			}
		}
		if drawBool(t, "holdend", 20) {
			// a streamed response (no Content-Length: the proxy flushes every piece) whose end
			// is held back: the whole body can be out, and the windows can change, before the
			// empty DATA frame that carries END_STREAM is queued
			rp.NoCL, rp.HoldEnd = true, true
		}
		p.Backend.Resp[tag] = rp
		aux.Bodies[tag] = body
		aux.Streams[id] = tag
		downIDs = append(downIDs, id)
		totalDown += sz
		var prio *PrioParam
		if drawBool(t, "hprio", 30) {
			pp := drawPrio(t, id)
			prio = &pp
		}
		fields := [][2]string{{":method", "GET"}, {":scheme", "https"}, {":authority", "fc.verif.test"}, {":path", "/" + tag}, {"x-tag", tag}}
		write(HeadersFrames(id, enc.Block(fields), true, prio, -1, nil)...)
	}

	// window play
	if check == "C20" && len(all) > 20 && drawBool(t, "deepchain", 60) {
		// a dependency chain over all the streams (each depends on the one before), then the
		// stream at its head is made dependent on the one at its far end: RFC 7540 5.3.3 moves
		// the far end up first; whatever the depth, the structure stays a tree rooted at 0
		for i := 1; i < len(all); i++ {
			write(PriorityFrame(all[i], PrioParam{Dep: all[i-1], Weight: uint8(rapid.IntRange(0, 255).Draw(t, "chainw"))}))
		}
		write(PriorityFrame(all[0], PrioParam{Dep: all[len(all)-1], Exclusive: drawBool(t, "chainex", 40), Weight: 7}))
	}
	m := rapid.IntRange(0, 10).Draw(t, "nplay")
	connGranted := int64(65535)
	strGranted := map[uint32]int64{}
	curIWS := iws
	for i := 0; i < m; i++ {
		switch rapid.IntRange(0, 7).Draw(t, "play") {
		case 7:
			// a further (small) download opened in the middle of the window events: a stream
			// that starts its life on a connection where others were reset or are blocked
			// (and that is handed whatever per-stream state the server recycles)
			if n > 20 {
				continue
			}
			id := next
			next += 2
			tag := fmt.Sprintf("c0-l%d", id)
			body := bodyBytes(tag, rapid.IntRange(0, 5000).Draw(t, "latesz"))
			p.Backend.Resp[tag] = &RespPlan{Status: 200, Body: body}
			aux.Bodies[tag] = body
			aux.Streams[id] = tag
			downIDs = append(downIDs, id)
			all = append(all, id)
			totalDown += len(body)
			fields := [][2]string{{":method", "GET"}, {":scheme", "https"}, {":authority", "fc.verif.test"}, {":path", "/" + tag}, {"x-tag", tag}}
			write(HeadersFrames(id, enc.Block(fields), true, nil, -1, nil)...)
			aux.Events = append(aux.Events, flowEvent{Kind: "open", Stream: id, Write: nwrite - 1})
		case 0, 1:
			inc := int64([]int{1, 2, 100, 16384, 65535, 1 << 20}[rapid.IntRange(0, 5).Draw(t, "cinc")])
			if connGranted+inc > 1<<30 {
				continue
			}
			connGranted += inc
			write(WindowUpdateFrame(0, uint32(inc)))
			aux.Events = append(aux.Events, flowEvent{Kind: "wu", Stream: 0, Inc: uint32(inc), Write: nwrite - 1})
		case 2, 3:
			if len(downIDs) == 0 {
				continue
			}
			id := downIDs[rapid.IntRange(0, len(downIDs)-1).Draw(t, "sid")]
			inc := int64([]int{1, 3, 1000, 16384, 70000, 1 << 20}[rapid.IntRange(0, 5).Draw(t, "sinc")])
			if strGranted[id]+inc > 1<<29 {
				continue
			}
			strGranted[id] += inc
			write(WindowUpdateFrame(id, uint32(inc)))
			aux.Events = append(aux.Events, flowEvent{Kind: "wu", Stream: id, Inc: uint32(inc), Write: nwrite - 1})
		case 4:
			// change SETTINGS_INITIAL_WINDOW_SIZE up or down (may drive open windows negative)
			curIWS = int64([]int{0, 1, 50, 1000, 16384, 65535, 200000, 1 << 20}[rapid.IntRange(0, 7).Draw(t, "iwsn")])
			write(SettingsFrame(Setting{4, uint32(curIWS)}))
			aux.Events = append(aux.Events, flowEvent{Kind: "settings", IWS: curIWS, MFS: -1, Write: nwrite - 1})
		case 5:
			mfs = int64([]int{16384, 16385, 30000, 1 << 16}[rapid.IntRange(0, 3).Draw(t, "mfsn")])
			write(SettingsFrame(Setting{5, uint32(mfs)}))
			aux.Events = append(aux.Events, flowEvent{Kind: "settings", IWS: -1, MFS: mfs, Write: nwrite - 1})
		case 6:
			if len(downIDs) == 0 {
				continue
			}
			id := downIDs[rapid.IntRange(0, len(downIDs)-1).Draw(t, "rsid")]
			if aux.ClientReset[id] {
				continue
			}
			aux.ClientReset[id] = true
			if drawBool(t, "zerowu", 30) {
				// not a reset of the client's but a stream error of its making: a WINDOW_UPDATE with
				// increment 0 on the stream; the server resets the stream itself, and that RST_STREAM
				// is a control frame - it is not to wait behind the stream's window-blocked DATA
				write(WindowUpdateFrame(id, 0))
				aux.ServerReset = append(aux.ServerReset, id)
			} else {
				write(RSTFrame(id, ErrCancel))
			}
			aux.Events = append(aux.Events, flowEvent{Kind: "rst", Stream: id, Write: nwrite - 1})
		}
		if check == "C20" && drawBool(t, "prioplay", 50) {
			// priority updates, including circular and exclusive dependencies on any stream
			st := uint32(2*rapid.IntRange(0, int(next/2)+3).Draw(t, "pst") + 1)
			dep := uint32(rapid.IntRange(0, int(next/2)+3).Draw(t, "pdp"))
			if dep != 0 {
				dep = 2*dep - 1
			}
			if dep != st {
				write(PriorityFrame(st, PrioParam{Dep: dep, Exclusive: drawBool(t, "pex", 40), Weight: uint8(rapid.IntRange(0, 255).Draw(t, "pw"))}))
			}
		}
	}
	// final grants: enough for everything that is left (liveness clause)
	final := []Frame{}
	need := int64(totalDown) + 1
	if connGranted+need < 1<<30 {
		final = append(final, WindowUpdateFrame(0, uint32(need)))
		aux.Events = append(aux.Events, flowEvent{Kind: "wu", Stream: 0, Inc: uint32(need), Write: nwrite})
	}
	// a last INITIAL_WINDOW_SIZE large enough for every stream at once
	final = append(final, SettingsFrame(Setting{4, 1 << 20}))
	aux.Events = append(aux.Events, flowEvent{Kind: "settings", IWS: 1 << 20, MFS: -1, Write: nwrite})
	write(final...)
	var awaited []uint32
	for _, id := range all {
		if !aux.ClientReset[id] {
			awaited = append(awaited, id)
		}
	}
	steps = append(steps, Step{Kind: "h2await", Streams: awaited})
	// let the server see (and account for) every byte that was uploaded before going away
	steps = append(steps, Step{Kind: "write", Pieces: [][]byte{FramesBytes(PingFrame(false, [8]byte{0xfc}))}, WhenQuiet: true})
	steps = append(steps, Step{Kind: "h2ping", WhenQuiet: true})
	if drawBool(t, "connoverflow", 5) {
		aux.ConnOverflow = true
		steps = append(steps, Step{Kind: "write", Pieces: [][]byte{FramesBytes(WindowUpdateFrame(0, 0x7fffffff))}}, Step{Kind: "readeof"})
	}
	steps = append(steps, Step{Kind: "close"})
	cp.Steps = steps
	if drawBool(t, "segdown", 30) {
		cp.SegDown = "rand"
	}
	p.Clients = []*ClientPlan{cp}
	p.Fences = drawBool(t, "fences", 30)
	p.BodyReadFences = check == "C12" && drawBool(t, "bodyreadfences", 30)
	p.WriteFences = check == "C12" && drawBool(t, "writefences", 30)
	// 10%: the serve loop is held back by the controller while an asynchronous write is in flight
	// (write results, frames from the client and handler messages pile up and are seen together)
	p.ServeFences = check == "C12" && drawBool(t, "servefences", 10)
	p.Tape, p.Tail = drawTape(t, 128)
	c := &Case{Plan: p, Metas: []*ClientMeta{{Proto: "h2"}}, Aux: aux}
	var ev []string
	for _, e := range aux.Events {
		switch e.Kind {
		case "wu":
			ev = append(ev, fmt.Sprintf("WU(%d,+%d)", e.Stream, e.Inc))
		case "settings":
			ev = append(ev, fmt.Sprintf("SETTINGS(iws=%d,mfs=%d)", e.IWS, e.MFS))
		case "rst":
			ev = append(ev, fmt.Sprintf("RST(%d)", e.Stream))
		case "open":
			ev = append(ev, fmt.Sprintf("OPEN(%d)", e.Stream))
		}
	}
	var sizes []string
	for _, id := range all {
		tag := aux.Streams[id]
		if up, ok := aux.Uploads[id]; ok {
			sizes = append(sizes, fmt.Sprintf("%d:up%d", id, up))
		} else {
			sizes = append(sizes, fmt.Sprintf("%d:down%d", id, len(aux.Bodies[tag])))
		}
	}
	c.Summary = fmt.Sprintf("scheduler=%s cfg=%+v streams[%s] events: %s", p.SchedKind, p.SchedCfg, strings.Join(head(sizes, 12), " "), strings.Join(head(ev, 16), " "))
	c.Nontrivial = func(w *World, c *Case) bool {
		for _, rf := range w.Clients[0].Recv {
			if rf.F.Type == FData {
				return true
			}
		}
		return false
	}
	if check == "C20" {
		c.Oracle = oracleC20
	} else {
		c.Oracle = oracleC12
	}
	return c
}

// refwin: walk the frames the client received, in order, against the most
// permissive reading of what the client had granted by then.
func oracleC12(w *World, c *Case) {
	aux := c.Aux.(*flowAux)
	cl := w.Clients[0]
	if !cl.HandshakeOK {
		return
	}
	// deliver what is still in flight (window updates on their way to the client)
	w.Drain(20000)
	if aux.UploadOverrun != 0 {
		w.mu.Lock()
		defer w.mu.Unlock()
		adv := int64(65535)
		for _, rf := range cl.Recv {
			if rf.F.Type == FSettings && rf.F.Flags&FlagAck == 0 {
				for i := 0; i+6 <= len(rf.F.Payload); i += 6 {
					if binary.BigEndian.Uint16(rf.F.Payload[i:]) == 4 {
						adv = int64(binary.BigEndian.Uint32(rf.F.Payload[i+2:]))
					}
				}
			}
		}
		if adv != 1<<20 {
			w.Probes["server_advertises_other_stream_window"]++
			return
		}
		st := cl.Streams[aux.UploadOverrun]
		streamErr := st != nil && st.RST && st.RSTCode == ErrFlowControl
		connErr := cl.GoAway != nil && len(cl.GoAway.Payload) >= 8 && binary.BigEndian.Uint32(cl.GoAway.Payload[4:]) == ErrFlowControl
		if !streamErr && !connErr {
			w.Violations = append(w.Violations, Violation{"window_overrun_not_rejected", "window_overrun_not_rejected", fmt.Sprintf("the client sent %d bytes on a stream whose advertised window is %d without any credit coming back; neither RST_STREAM nor GOAWAY with FLOW_CONTROL_ERROR followed (stream: %+v, goaway: %v)", adv+1, adv, st, cl.GoAway)})
		} else {
			w.Probes["peer_window_overrun_rejected"]++
		}
		return
	}
	w.mu.Lock()
	recv := append([]RecvFrame(nil), cl.Recv...)
	writeSteps := append([]int(nil), cl.WriteSteps...)
	w.mu.Unlock()
	stepOf := func(wi int) int {
		if wi < len(writeSteps) {
			return writeSteps[wi]
		}
		return 1 << 30 // never written
	}
	// the client's SETTINGS frames in order, for ACK matching
	var settings []flowEvent
	for _, e := range aux.Events {
		if e.Kind == "settings" {
			settings = append(settings, e)
		}
	}
	acks := 0
	sentConn := int64(0)
	sentStream := map[uint32]int64{}
	desc := c.Summary
	firstServerWU := int64(-1)
	serverConnWU := int64(0)
	for _, rf := range recv {
		f := rf.F
		id := f.Stream & 0x7fffffff
		switch f.Type {
		case FSettings:
			if f.Flags&FlagAck != 0 {
				acks++
			}
		case FWindowUpdate:
			if id == 0 && len(f.Payload) == 4 {
				inc := int64(binary.BigEndian.Uint32(f.Payload) & 0x7fffffff)
				if firstServerWU < 0 {
					firstServerWU = inc
				}
				serverConnWU += inc
			}
		case FData:
			l := int64(len(f.Payload))
			// candidates for INITIAL_WINDOW_SIZE and MAX_FRAME_SIZE: the last acknowledged
			// SETTINGS and every later one written before this frame was received
			iwsMax, mfsMax := int64(65535), int64(16384)
			curI, curM := int64(65535), int64(16384)
			for i, s := range settings {
				if stepOf(s.Write) > rf.Step {
					break
				}
				if s.IWS >= 0 {
					curI = s.IWS
				}
				if s.MFS >= 0 {
					curM = s.MFS
				}
				if i < acks {
					// acknowledged: the running value replaces everything before it
					iwsMax, mfsMax = curI, curM
				} else {
					if curI > iwsMax {
						iwsMax = curI
					}
					if curM > mfsMax {
						mfsMax = curM
					}
				}
			}
			if acks == 0 {
				// nothing acknowledged yet: the protocol defaults are still candidates
				if 65535 > iwsMax {
					iwsMax = 65535
				}
			}
			grantConn, grantStream := int64(65535), iwsMax
			for _, e := range aux.Events {
				if e.Kind == "wu" && stepOf(e.Write) <= rf.Step {
					if e.Stream == 0 {
						grantConn += int64(e.Inc)
					} else if e.Stream == id {
						grantStream += int64(e.Inc)
					}
				}
			}
			sentConn += l
			sentStream[id] += l
			if l == 0 {
				continue // empty DATA frames are not flow-controlled
			}
			if l > mfsMax {
				w.Violate("frame_size_exceeded", "frame_size_exceeded", "DATA frame of %d bytes on stream %d, the client's SETTINGS_MAX_FRAME_SIZE is at most %d | %s", l, id, mfsMax, desc)
				return
			}
			if sentConn > grantConn {
				w.Violate("connection_window_exceeded", "connection_window_exceeded", "after %d bytes of DATA the server is %d bytes beyond the connection window the client had granted (%d) | %s", sentConn, sentConn-grantConn, grantConn, desc)
				return
			}
			if sentStream[id] > grantStream {
				w.Violate("stream_window_exceeded", "stream_window_exceeded", "stream %d: %d bytes of DATA sent, the most the client can have granted by then is %d (initial window candidates up to %d) | %s", id, sentStream[id], grantStream, iwsMax, desc)
				return
			}
			if sentStream[id] == grantStream || sentConn == grantConn {
				w.Probe("window_used_up_exactly")
			}
		}
	}
	if aux.NegPosWant > 0 {
		w.mu.Lock()
		marks := append([]int(nil), cl.Marks...)
		w.mu.Unlock()
		if len(marks) == 0 {
			w.Violate("harness", "harness", "negative-then-positive focus: the mark was never taken | %s", desc)
		} else if marks[0] != aux.NegPosWant {
			w.Violate("window_opened_data_not_delivered", "window_opened_data_not_delivered", "2 s of silence after the WINDOW_UPDATE that took the stream window from negative to positive: %d body bytes received, %d are permitted and queued | %s", marks[0], aux.NegPosWant, desc)
			return
		} else {
			w.Probe("window_reopened_from_negative_data_delivered")
		}
	}
	// liveness: once the final grants were sent, every body arrives completely
	connDied := cl.GoAway != nil && len(cl.GoAway.Payload) >= 8 && binary.BigEndian.Uint32(cl.GoAway.Payload[4:]) != 0
	if connDied && !aux.ConnOverflow {
		w.Violate("legal_flow_drew_connection_error", "legal_flow_drew_connection_error", "GOAWAY %s during a legal flow-control session | %s", cl.GoAway.String(), desc)
		return
	}
	w.mu.Lock()
	streams := map[uint32]*H2Stream{}
	for id, s := range cl.Streams {
		streams[id] = s
	}
	stuck := w.Stuck
	w.mu.Unlock()
	if !connDied || aux.ConnOverflow {
		for id, tag := range aux.Streams {
			st := streams[id]
			if aux.ClientReset[id] {
				continue
			}
			if st == nil || !st.Ended {
				if aux.ConnOverflow && connDied {
					continue
				}
				if st != nil && st.RST && aux.EarlyAnswer[tag] {
					// the back-end answered without reading the upload and closed; the proxy was
					// still forwarding the body, its write failed and the exchange was aborted
					// (what a TCP reset does to a response in flight): not queued data left behind
					w.Probe("early_answer_exchange_aborted")
					continue
				}
				w.Violate("queued_data_not_delivered", "queued_data_not_delivered", "stream %d (%s) never completed although the client granted enough window for everything (received %d of %d body bytes, rst=%v, run stuck=%v) | %s", id, tag, lenBody(st), len(aux.Bodies[tag]), st != nil && st.RST, stuck, desc)
				return
			}
			if !bytes.Equal(st.Body, aux.Bodies[tag]) {
				w.Violate("body_corrupted", "body_corrupted", "stream %d (%s): body of %d bytes differs from the %d bytes the back-end produced | %s", id, tag, len(st.Body), len(aux.Bodies[tag]), desc)
				return
			}
		}
	}
	if aux.ConnOverflow {
		if !connDied || binary.BigEndian.Uint32(cl.GoAway.Payload[4:]) != ErrFlowControl {
			w.Violate("window_overflow_not_rejected", "window_overflow_not_rejected", "a connection WINDOW_UPDATE overflowing 2^31-1 was not answered with GOAWAY FLOW_CONTROL_ERROR (got %v) | %s", cl.GoAway, desc)
		} else {
			w.Probe("connection_window_overflow_rejected")
		}
		return
	}
	// credit: everything the client uploaded has been consumed or discarded by now
	up := int64(0)
	for _, n := range aux.Uploads {
		up += int64(n)
	}
	if up > 0 && firstServerWU >= 0 {
		unreturned := up - (serverConnWU - firstServerWU)
		if osGetenv("VERIF_DEBUG_CREDIT") != "" {
			fmt.Fprintf(os.Stderr, "CREDIT up=%d returned=%d unreturned=%d uploads=%d\n", up, serverConnWU-firstServerWU, unreturned, len(aux.Uploads))
		}
		if unreturned > 16384 {
			w.Violate("connection_credit_leak", "connection_credit_leak", "the client uploaded %d bytes of DATA (incl. padding) on %d streams; %d bytes of connection-level credit were never returned (bound 16384) | %s", up, len(aux.Uploads), unreturned, desc)
		}
		if unreturned < 0 {
			// Observation O7 (not demanded by the property, so not a violation): closeStream
			// refunds the unread buffered body bytes and a reader that drains the closed pipe
			// afterwards (the reverse proxy's outbound body copy) is refunded again.
			w.Probe("observation_O7_connection_credit_returned_twice")
		}
		w.Probe("credit_checked")
	}
}

func lenBody(s *H2Stream) int {
	if s == nil {
		return 0
	}
	return len(s.Body)
}

func oracleC20(w *World, c *Case) {
	// the monitor reports violations while the run proceeds; here only the liveness
	// consequence: nothing that was queued and sendable stays behind
	aux := c.Aux.(*flowAux)
	cl := w.Clients[0]
	if !cl.HandshakeOK || aux.ConnOverflow {
		return
	}
	connDied := cl.GoAway != nil && len(cl.GoAway.Payload) >= 8 && binary.BigEndian.Uint32(cl.GoAway.Payload[4:]) != 0
	if connDied {
		return
	}
	w.mu.Lock()
	defer w.mu.Unlock()
	for id, tag := range aux.Streams {
		st := cl.Streams[id]
		if aux.ClientReset[id] {
			continue
		}
		if st == nil || !st.Ended {
			w.Violations = append(w.Violations, Violation{"sched_frames_left_behind", "sched_frames_left_behind", fmt.Sprintf("scheduler %q: stream %d (%s) never completed although every window was opened | %s", w.Plan.SchedKind, id, tag, c.Summary)})
			return
		}
		if !bytes.Equal(st.Body, aux.Bodies[tag]) {
			w.Violations = append(w.Violations, Violation{"sched_body", "sched_body", fmt.Sprintf("scheduler %q: stream %d body differs from what was queued | %s", w.Plan.SchedKind, id, c.Summary)})
			return
		}
	}
}

func init() {
	register(&CheckDef{ID: "C12", Level: "exploration", Engine: "A", Draw: func(t *rapid.T) *Case {
		if drawBool(t, "transportworld", 25) || osGetenv("VERIF_C12_TRANSPORT") != "" {
			return drawC12Transport(t)
		}
		return drawFlow(t, "C12")
	},
		Rule: "a raw-frame client opens 1-8 (5%: 20-120) streams: downloads of 0..300000 bytes (boundary sizes 16384/16385/65535/65536, streamed by the back-end in chunks; 20% without Content-Length and with the end of the response held back until the controller releases it, so that END_STREAM travels in an empty DATA frame queued after further window events) and uploads of 0..120000 bytes in DATA frames of seeded sizes with padding (20% answered by the back-end without reading the body; 15% longer than their declared content-length, so that the server resets the stream and has to discard what follows), with SETTINGS_INITIAL_WINDOW_SIZE in {0,1,100,16384,65535,2^20} and MAX_FRAME_SIZE variants; then 0-10 window events: connection / stream WINDOW_UPDATEs of 1..2^20, further small downloads opened in between, INITIAL_WINDOW_SIZE changes up and down (driving open windows negative), MAX_FRAME_SIZE changes, client RST_STREAM mid-body; final grants that suffice for everything; 5%: a connection WINDOW_UPDATE overflowing 2^31-1; 3%: a stream window used up, driven negative by SETTINGS, reopened by a WINDOW_UPDATE, then 2 s of silence at whose end exactly the permitted bytes must have arrived. 4%: 1-4 uploads into a stub of a library user's handler that reads a little, closes the request body and stays busy while 80-400 DATA frames of 0-64 octets with up to 255 octets of padding arrive on the still open stream (with go1.26's ReverseProxy the inbound body is never closed before the handler returns, so the proxy's own handler cannot reach that state): discarded data is credited to the connection with its padding. 2%: uploads of 300 kB that the back-end answers early and then hangs up on - eight in a row, or (half) ONE under a stream window of 0 with an answer of 1..20000 octets (4000/4080/4096/4097 among them: one DATA frame that is written asynchronously) that cannot leave while the rest of the upload, maximally padded, arrives and the stream's own WINDOW_UPDATEs queue behind it (found D14); early-focus runs with a short answer pause 60-400 ms after it (half). All three write schedulers, fences (incl. the write fence that keeps a frame write in flight, 30% of runs), response segmentation by draw. Oracle refwin: every DATA frame within the connection window, the stream window (largest INITIAL_WINDOW_SIZE among the last acknowledged and all later written SETTINGS, plus every WINDOW_UPDATE written before the frame was received) and the maximum frame size; all bodies complete and byte-identical after the final grants; overflow rejected with FLOW_CONTROL_ERROR; connection-level credit not returned after all uploads are consumed or discarded <= 16 KiB and never negative. Non-trivial: the server sent DATA. Distinct: distinct controller action-label sequences."})
	register(&CheckDef{ID: "C20", Level: "exploration", Engine: "A", Draw: func(t *rapid.T) *Case { return drawFlow(t, "C20") },
		Rule: "in-situ monitor: the C12 workload (bodies under client-controlled windows, RST_STREAM mid-body, INITIAL_WINDOW_SIZE and MAX_FRAME_SIZE changes) plus PRIORITY frames with arbitrary, circular and exclusive dependencies on open, idle and closed streams (and, with 20-120 streams, a dependency chain over all of them whose head is then made dependent on its far end), against round-robin / priority (seeded MaxClosedNodesInTree, MaxIdleNodesInTree, ThrottleOutOfOrderWrites) / random schedulers installed through http2.Server.NewWriteScheduler behind a monitor that checks every OpenStream / CloseStream / AdjustStream / Push / Pop against a list-based model: each pushed frame popped exactly once unless its stream was closed first, per-stream order, control before stream data, popped DATA pieces <= stream window, connection window and peer's maximum frame size (read before the pop through an injected accessor) and concatenating to the original, Pop()==false only when nothing is sendable, priority tree rooted at 0 / acyclic / links consistent after every operation. Operation sequences are those the serve loop produces under simulated schedules, not arbitrary interface-level sequences. Non-trivial: the server sent DATA. Distinct: distinct controller action-label sequences."})
}

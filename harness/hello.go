package harness

// HelloPlan: a drawable description of a ClientHello; turned into a utls
// ClientHelloSpec.  The generator keeps the hello acceptable to crypto/tls
// (one usable cipher, group, key share and signature scheme) and varies
// everything else.

import (
	"fmt"
	"net"

	utls "github.com/refraction-networking/utls"
)

type ExtPlan struct {
	Kind string // sni, groups, points, sigalgs, alpn, versions, keyshare, pskmodes, generic, grease, padding, status, sct, ems, reneg, ticket
	ID   uint16 // generic / grease
	Data []byte // generic / grease body
	U16  []uint16
	U8   []uint8
	Strs []string
	Str  string
}

type HelloPlan struct {
	VersMin, VersMax uint16
	// LegacyVers, if not 0, replaces the legacy_version field of the ClientHello (only drawn for
	// hellos without a supported_versions extension: the server then negotiates TLS 1.2 for
	// any value >= 0x0303, and the field is what JA3 and JA4 report as the version)
	LegacyVers   uint16
	Ciphers      []uint16
	Compression  []uint8
	Exts         []ExtPlan
	NoExtensions bool
}

func (h *HelloPlan) String() string {
	s := fmt.Sprintf("vers=%04x-%04x legacy=%04x ciphers=%04x exts=[", h.VersMin, h.VersMax, h.LegacyVers, h.Ciphers)
	for i, e := range h.Exts {
		if i > 0 {
			s += " "
		}
		switch e.Kind {
		case "generic", "grease":
			s += fmt.Sprintf("%s:%04x(%d)", e.Kind, e.ID, len(e.Data))
		case "sni":
			s += fmt.Sprintf("sni(%d)", len(e.Str))
		case "alpn":
			s += fmt.Sprintf("alpn%q", e.Strs)
		case "padding":
			s += fmt.Sprintf("padding(%d)", len(e.Data))
		default:
			s += e.Kind
			if e.U16 != nil {
				s += fmt.Sprintf("%04x", e.U16)
			}
			if e.U8 != nil {
				s += fmt.Sprintf("%x", e.U8)
			}
		}
	}
	return s + "]"
}

func (h *HelloPlan) ALPN() []string {
	for _, e := range h.Exts {
		if e.Kind == "alpn" {
			return e.Strs
		}
	}
	return nil
}

func (h *HelloPlan) SNI() string {
	for _, e := range h.Exts {
		if e.Kind == "sni" {
			return e.Str
		}
	}
	return ""
}

func (h *HelloPlan) Spec() *utls.ClientHelloSpec {
	spec := &utls.ClientHelloSpec{
		CipherSuites:       append([]uint16(nil), h.Ciphers...),
		CompressionMethods: append([]uint8(nil), h.Compression...),
		TLSVersMin:         h.VersMin,
		TLSVersMax:         h.VersMax,
	}
	if len(spec.CompressionMethods) == 0 {
		spec.CompressionMethods = []uint8{0}
	}
	if h.NoExtensions {
		return spec
	}
	for _, e := range h.Exts {
		var x utls.TLSExtension
		switch e.Kind {
		case "sni":
			x = &utls.SNIExtension{ServerName: e.Str}
		case "groups":
			cs := make([]utls.CurveID, len(e.U16))
			for i, v := range e.U16 {
				cs[i] = utls.CurveID(v)
			}
			x = &utls.SupportedCurvesExtension{Curves: cs}
		case "points":
			x = &utls.SupportedPointsExtension{SupportedPoints: append([]uint8(nil), e.U8...)}
		case "sigalgs":
			ss := make([]utls.SignatureScheme, len(e.U16))
			for i, v := range e.U16 {
				ss[i] = utls.SignatureScheme(v)
			}
			x = &utls.SignatureAlgorithmsExtension{SupportedSignatureAlgorithms: ss}
		case "alpn":
			x = &utls.ALPNExtension{AlpnProtocols: append([]string(nil), e.Strs...)}
		case "versions":
			x = &utls.SupportedVersionsExtension{Versions: append([]uint16(nil), e.U16...)}
		case "keyshare":
			ks := []utls.KeyShare{}
			for _, g := range e.U16 {
				k := utls.KeyShare{Group: utls.CurveID(g)}
				if isGREASE(g) {
					k.Data = []byte{0}
				}
				ks = append(ks, k)
			}
			x = &utls.KeyShareExtension{KeyShares: ks}
		case "pskmodes":
			x = &utls.PSKKeyExchangeModesExtension{Modes: append([]uint8(nil), e.U8...)}
		case "generic":
			x = &utls.GenericExtension{Id: e.ID, Data: append([]byte(nil), e.Data...)}
		case "grease":
			// GenericExtension writes the id verbatim (UtlsGREASEExtension would
			// re-randomise the placeholder value)
			x = &utls.GenericExtension{Id: e.ID, Data: append([]byte(nil), e.Data...)}
		case "padding":
			n := len(e.Data)
			x = &utls.UtlsPaddingExtension{PaddingLen: n, WillPad: n > 0, GetPaddingLen: func(int) (int, bool) { return n, n > 0 }}
		case "fakepsk":
			// a pre_shared_key offer the server cannot decrypt: it is ignored and a full
			// handshake follows; the extension has to be the last one
			x = &utls.FakePreSharedKeyExtension{
				Identities: []utls.PskIdentity{{Label: append([]byte(nil), e.Data...), ObfuscatedTicketAge: 0x01020304}},
				Binders:    [][]byte{make([]byte, 32)},
			}
		case "realpsk":
			// filled in by utls from the session cache (omitted when there is no session)
			x = &utls.UtlsPreSharedKeyExtension{}
		case "status":
			x = &utls.StatusRequestExtension{}
		case "sct":
			x = &utls.SCTExtension{}
		case "ems":
			x = &utls.ExtendedMasterSecretExtension{}
		case "reneg":
			x = &utls.RenegotiationInfoExtension{Renegotiation: utls.RenegotiateOnceAsClient}
		case "ticket":
			x = &utls.SessionTicketExtension{}
		default:
			panic("unknown ext kind " + e.Kind)
		}
		spec.Extensions = append(spec.Extensions, x)
	}
	return spec
}

func isGREASE(v uint16) bool {
	return v&0x0f0f == 0x0a0a && v>>8 == v&0xff
}

// PredictFingerprints builds the ClientHello off-line with utls and returns the
// reference JA3 / JA4 a client can compute for itself before it connects.
func PredictFingerprints(h *HelloPlan) (ja3, ja4 string, ok bool) {
	defer func() {
		if recover() != nil {
			ok = false
		}
	}()
	if h == nil {
		return "", "", false
	}
	u := utls.UClient(&net.TCPConn{}, &utls.Config{InsecureSkipVerify: true, ServerName: h.SNI()}, utls.HelloCustom)
	if err := u.ApplyPreset(h.Spec()); err != nil {
		return "", "", false
	}
	if err := u.BuildHandshakeState(); err != nil {
		return "", "", false
	}
	raw := u.HandshakeState.Hello.Raw
	if len(raw) == 0 || len(raw) > 16384 {
		return "", "", false
	}
	rec := append([]byte{0x16, 0x03, 0x01, byte(len(raw) >> 8), byte(len(raw))}, raw...)
	ref, err := ParseHelloRecord(rec)
	if err != nil {
		return "", "", false
	}
	j4 := ref.JA4()
	if j4.ALPNOpen {
		return "", "", false
	}
	return ref.JA3(), j4.A + "_" + j4.B[0] + "_" + j4.C[0], true
}

package harness

import (
	"encoding/json"
	"fmt"
	"os"
	"runtime"
	"runtime/debug"
	"sort"
	"strings"
	"testing"
	"testing/synctest"
	"time"

	"pgregory.net/rapid"
)

type RunResult struct {
	Violations []Violation
	Digest     string
	Sched      string
	Steps      int
	SimTime    time.Duration
	Nontrivial bool
	Panic      string
}

type WorkerStats struct {
	Check        string         `json:"check"`
	Rule         string         `json:"rule"`
	Level        string         `json:"level"`
	Engine       string         `json:"engine"`
	Runs         int            `json:"runs"`
	Nontrivial   int            `json:"nontrivial"`
	Scheds       map[string]int `json:"-"`
	SchedList    []string       `json:"scheds"` // distinct schedule hashes of non-trivial runs
	Steps        int            `json:"steps"`
	SimTimeMS    int64          `json:"sim_time_ms"`
	Faults       map[string]int `json:"faults"`
	Probes       map[string]int `json:"probes"`
	Samples      []string       `json:"samples"`
	Known        map[string]int `json:"known"` // known-finding signature -> hits
	Failed       bool           `json:"failed"`
	Failure      *FailureRec    `json:"failure,omitempty"`
	WallS        float64        `json:"wall_s"`
	Digests      []string       `json:"digests,omitempty"`
	Stuck        int            `json:"stuck"`
	Bytes        int            `json:"bytes_delivered"`
	EnumCount    int            `json:"enum_count"`
	EnumParams   map[string]int `json:"enum_params,omitempty"`
	EnumRan      int            `json:"enum_ran"`
	EnumRule     string         `json:"enum_rule,omitempty"`
	FailIter     int            `json:"fail_iter"` // rapid iteration (0-based) of the first failing run
	FirstFailure *FailureRec    `json:"first_failure,omitempty"`
}

type FailureRec struct {
	Property  string      `json:"property"`
	Class     string      `json:"class"`
	Sig       string      `json:"sig"`
	Msg       string      `json:"msg"`
	All       []Violation `json:"all"`
	Summary   string      `json:"summary"`
	Decisions []Decision  `json:"decisions"`
	Digest    string      `json:"digest"`
	Log       string      `json:"log,omitempty"`
	EnumIndex int         `json:"enum_index"`
	IsEnum    bool        `json:"is_enum"`
}

func loadKnown() map[string]bool {
	// open known findings: lines "open: property=<id> sig=<sig> ..."
	m := map[string]bool{}
	path := os.Getenv("VERIF_KNOWN")
	if path == "" {
		path = "/verif/KNOWN_FINDINGS.txt"
	}
	b, err := os.ReadFile(path)
	if err != nil {
		return m
	}
	for _, line := range strings.Split(string(b), "\n") {
		f := strings.Fields(line)
		if len(f) < 3 || f[0] != "open:" {
			continue
		}
		var prop, sig string
		for _, x := range f[1:] {
			if strings.HasPrefix(x, "property=") {
				prop = strings.TrimPrefix(x, "property=")
			}
			if strings.HasPrefix(x, "sig=") {
				sig = strings.TrimPrefix(x, "sig=")
			}
		}
		if prop != "" && sig != "" {
			m[prop+"|"+sig] = true
		}
	}
	return m
}

func runCase(t *testing.T, c *Case) (res *RunResult, w *World) {
	res = &RunResult{}
	if c.Direct != nil {
		res.Violations = c.Direct(c)
		res.Nontrivial = true
		res.Sched = c.DirectKey
		return res, nil
	}
	func() {
		defer func() {
			if e := recover(); e != nil {
				res.Panic = fmt.Sprint(e)
			}
		}()
		synctest.Test(t, func(t *testing.T) {
			w = NewWorld(t, c.Plan)
			w.Run()
			if c.Mid != nil {
				c.Mid(w, c)
			}
			if c.Oracle != nil {
				c.Oracle(w, c)
			}
			if os.Getenv("VERIF_DEBUG") != "" {
				fmt.Fprintf(os.Stderr, "---- case: %s\n---- log:\n%s\n", c.Summary, w.LogBuf.String())
				for _, cl := range w.Clients {
					fmt.Fprintf(os.Stderr, "client %s: hs=%v proto=%q errs=%v readerr=%q step=%d/%d done=%v resps=%d echo=%d\n", cl.Name, cl.HandshakeOK, cl.NegProto, cl.StepErrs, cl.ReadErr, cl.stepIdx, len(cl.Plan.Steps), cl.Done(), len(cl.Resps), len(cl.TunnelEcho))
					for _, rf := range cl.Recv {
						fmt.Fprintf(os.Stderr, "   recv@%d %s\n", rf.Step, rf.F.String())
					}
				}
			}
			if os.Getenv("VERIF_DEBUG") == "2" {
				for _, g := range Census("httputil", "net/http.(*conn)", "harness.(*Client)", "backendTunnel") {
					fmt.Fprintf(os.Stderr, "GOROUTINE %s\n\n", g)
				}
			}
			res.Digest = w.Digest()
			res.Sched = w.SchedHash()
			res.Steps = w.Step
			res.SimTime = w.Now()
			w.Teardown()
		})
	}()
	if w != nil {
		for _, cl := range w.Clients {
			switch {
			case cl.HandshakeOK:
				w.Probes["handshake_ok"]++
				w.Probes["proto_"+cl.NegProto]++
				if cl.TLSVersion == 0x0304 {
					w.Probes["tls13"]++
				} else {
					w.Probes["tls12"]++
				}
				if cl.Plan.Hello != nil && cl.Plan.Hello.NoExtensions {
					w.Probes["hello_without_extensions"]++
				}
				if rh, err := ParseHelloRecord(cl.HelloRecord()); err == nil {
					for _, e := range rh.Exts {
						if e.Type == 41 {
							w.Probes["hello_with_pre_shared_key"]++
						}
					}
					if len(rh.Ciphers) > 255 || len(rh.Exts) > 255 {
						w.Probes["hello_with_more_than_255_ciphers_or_extensions"]++
					}
				}
			case cl.HandshakeErr != "":
				w.Probes["handshake_failed"]++
				e := cl.HandshakeErr
				if len(e) > 60 {
					e = e[:60]
				}
				w.Probes["hs_err: "+e]++
			}
		}
		for _, cl := range w.Clients {
			if cl.GoAway != nil && len(cl.GoAway.Payload) >= 8 {
				code := uint32(cl.GoAway.Payload[4])<<24 | uint32(cl.GoAway.Payload[5])<<16 | uint32(cl.GoAway.Payload[6])<<8 | uint32(cl.GoAway.Payload[7])
				w.Probes[fmt.Sprintf("goaway_code_%d", code)]++
			}
			for _, st := range cl.Streams {
				if st.RST {
					w.Probes[fmt.Sprintf("rst_code_%d", st.RSTCode)]++
				}
			}
			for _, e := range cl.StepErrs {
				if len(e) > 70 {
					e = e[:70]
				}
				w.Probes["steperr: "+e]++
			}
		}
		if w.Stuck {
			w.Probes["stuck"]++
		}
		if w.Sched.Pushes > 0 {
			w.Probes["sched_pushes"] += w.Sched.Pushes
			w.Probes["sched_pops"] += w.Sched.Pops
			w.Probes["sched_empty_pops"] += w.Sched.EmptyPops
			w.Probes["sched_data_splits"] += w.Sched.Splits
			w.Probes["sched_stream_closes"] += w.Sched.Closes
			w.Probes["sched_frames_dropped_by_close"] += w.Sched.DroppedByClose
			w.Probes["sched_adjusts"] += w.Sched.Adjusts
			w.Probes["sched_tree_checks"] += w.Sched.TreeChecks
			w.Probes["sched_kind_"+w.Plan.SchedKind]++
		}
		w.Probes["backend_requests"] += len(w.BackReqs)
		res.Violations = w.Violations
		if c.Nontrivial != nil {
			res.Nontrivial = c.Nontrivial(w, c)
		} else {
			res.Nontrivial = len(w.BackReqs) > 0
		}
	}
	return res, w
}

func TestWorker(t *testing.T) {
	InitProcess()
	id := os.Getenv("VERIF_CHECK")
	def := Checks[id]
	if def == nil {
		t.Fatalf("unknown check %q", id)
	}
	debug.SetGCPercent(-1)
	known := loadKnown()
	st := &WorkerStats{Rule: def.Rule, Level: def.Level, Engine: def.Engine, Check: id, Scheds: map[string]int{}, Faults: map[string]int{}, Probes: map[string]int{}, Known: map[string]int{}}
	start := time.Now()
	out := os.Getenv("VERIF_OUT")
	wantDigests := os.Getenv("VERIF_DIGESTS") != ""
	defer func() {
		st.WallS = time.Since(start).Seconds()
		for k := range st.Scheds {
			st.SchedList = append(st.SchedList, k)
		}
		sort.Strings(st.SchedList)
		if out != "" {
			b, _ := json.MarshalIndent(st, "", " ")
			os.WriteFile(out, b, 0o644)
		}
	}()
	announce := os.Getenv("VERIF_ANNOUNCE")
	account := func(c *Case, res *RunResult, w *World) {
		st.Runs++
		st.Steps += res.Steps
		st.SimTimeMS += res.SimTime.Milliseconds()
		if res.Nontrivial {
			st.Nontrivial++
			st.Scheds[res.Sched]++
		}
		if w != nil {
			for k, v := range w.Net.Faults {
				st.Faults[k] += v
			}
			for k, v := range w.Probes {
				st.Probes[k] += v
			}
			if w.Stuck {
				st.Stuck++
			}
			st.Bytes += w.Net.BytesDelivered
		}
		for k, v := range c.DirectStats {
			st.Probes[k] += v
		}
		if len(st.Samples) < 4 && res.Nontrivial {
			st.Samples = append(st.Samples, c.Summary)
		}
		if wantDigests {
			st.Digests = append(st.Digests, res.Digest)
		}
	}
	judge := func(c *Case, res *RunResult, w *World) *FailureRec {
		if res.Panic != "" && !strings.Contains(res.Panic, "deadlock") {
			res.Violations = append(res.Violations, Violation{"panic", "panic", "panic escaped the simulated world: " + res.Panic})
		}
		var fresh []Violation
		for _, v := range res.Violations {
			if known[id+"|"+v.Sig] {
				if !st.Failed {
					st.Known[v.Sig]++
				}
				continue
			}
			fresh = append(fresh, v)
		}
		if len(fresh) == 0 {
			return nil
		}
		f := &FailureRec{Property: id, Class: fresh[0].Class, Sig: fresh[0].Sig, Msg: fresh[0].Msg, All: fresh, Summary: c.Summary, Digest: res.Digest}
		if w != nil {
			f.Decisions = w.Decisions
			if len(f.Decisions) > 400 {
				f.Decisions = f.Decisions[:400]
			}
			lg := w.LogBuf.String()
			if len(lg) > 4000 {
				lg = lg[len(lg)-4000:]
			}
			f.Log = lg
		}
		return f
	}
	if em := os.Getenv("VERIF_ENUM"); em != "" {
		if def.Enum == nil {
			t.Fatalf("check %s has no enumeration", id)
		}
		st.EnumRule = def.EnumRule
		params := def.Enum.Params(func(c *Case) *World {
			_, w := runCase(t, c)
			return w
		})
		st.EnumParams = params
		st.EnumCount = def.Enum.Count(params)
		if em == "count" {
			return
		}
		// "shard:nshards:stride" or "index:i".  With a stride > 1 every stride-th index
		// is run plus the last 64 (small special cases sit at the end of the space).
		var indexes []int
		var one int
		if n, _ := fmt.Sscanf(em, "index:%d", &one); n == 1 {
			indexes = []int{one}
		} else {
			var shard, nsh, stride int
			fmt.Sscanf(em, "%d:%d:%d", &shard, &nsh, &stride)
			k := 0
			for i := 0; i < st.EnumCount; i++ {
				if i%stride == 0 || i >= st.EnumCount-64 {
					if k%nsh == shard {
						indexes = append(indexes, i)
					}
					k++
				}
			}
		}
		for _, i := range indexes {
			if announce != "" {
				os.WriteFile(announce, []byte(fmt.Sprintf("enum %d", i)), 0o644)
			}
			c := def.Enum.Case(params, i)
			res, w := runCase(t, c)
			if i%8 == 7 {
				runtime.GC()
			}
			account(c, res, w)
			st.EnumRan++
			if f := judge(c, res, w); f != nil {
				f.EnumIndex = i
				f.IsEnum = true
				st.Failed = true
				st.Failure = f
				t.Errorf("VIOLATION %s enum=%d class=%s: %s", id, i, f.Class, f.Msg)
				return
			}
		}
		return
	}
	iter := 0
	rapid.Check(t, func(rt *rapid.T) {
		if announce != "" && !st.Failed {
			os.WriteFile(announce, []byte(fmt.Sprintf("rapid %d", iter)), 0o644)
		}
		c := def.Draw(rt)
		res, w := runCase(t, c)
		iter++
		if iter%8 == 7 {
			runtime.GC()
		}
		if !st.Failed {
			account(c, res, w)
		}
		if f := judge(c, res, w); f != nil {
			if !st.Failed {
				st.FailIter = iter - 1
				st.FirstFailure = f
			}
			st.Failed = true
			st.Failure = f
			rt.Fatalf("VIOLATION %s class=%s: %s", id, f.Class, f.Msg)
		}
	})
}

package harness

import (
	"fmt"
	"strings"

	"pgregory.net/rapid"
)

type ReqSpec struct {
	Scheme string // h2 :scheme ("" = https)
	Tag    string
	Method string
	Path   string
	Host   string
	Header [][2]string // as the client sends them (h2: lower-cased at render time)
	Body   []byte
}

// H2Preamble: what an h2raw client sends before its first request.
type H2Preamble struct {
	Settings []Setting
	WU       []uint32 // connection-level WINDOW_UPDATE increments
	Prios    []struct {
		Stream uint32
		P      PrioParam
	}
}

func (p H2Preamble) Frames() []Frame {
	fs := []Frame{SettingsFrame(p.Settings...)}
	for _, w := range p.WU {
		fs = append(fs, WindowUpdateFrame(0, w))
	}
	for _, pr := range p.Prios {
		fs = append(fs, PriorityFrame(pr.Stream, pr.P))
	}
	return fs
}

func DrawPreamble(t *rapid.T) H2Preamble {
	var p H2Preamble
	ids := []uint16{1, 2, 3, 4, 5, 6, 8, 9, 0x10, 0xff00}
	// distinct ids: the server hangs up on SETTINGS frames with duplicate ids (upstream hardening, O5)
	ids = append([]uint16(nil), ids...)
	shuffle(t, "setshuf", ids)
	n := rapid.IntRange(0, 5).Draw(t, "nset")
	for i := 0; i < n; i++ {
		id := ids[i]
		var v uint32
		switch id {
		case 2:
			v = 0 // ENABLE_PUSH must be 0 or 1
		case 4:
			v = uint32(rapid.IntRange(65535, 1<<24).Draw(t, "iws"))
		case 5:
			v = uint32(rapid.IntRange(16384, 1<<20).Draw(t, "mfs"))
		case 3:
			v = uint32(rapid.IntRange(1, 1000).Draw(t, "mcs"))
		case 8:
			v = uint32(rapid.IntRange(0, 1).Draw(t, "ecp"))
		default:
			v = uint32(rapid.IntRange(0, 1<<20).Draw(t, "setval"))
		}
		p.Settings = append(p.Settings, Setting{id, v})
	}
	nw := rapid.IntRange(0, 2).Draw(t, "nwu")
	for i := 0; i < nw; i++ {
		p.WU = append(p.WU, uint32(rapid.IntRange(1, 1<<24).Draw(t, "wu")))
	}
	np := rapid.IntRange(0, 3).Draw(t, "nprio")
	for i := 0; i < np; i++ {
		s := uint32(2*rapid.IntRange(1, 8).Draw(t, "pstream") + 1)
		dep := uint32(2 * rapid.IntRange(0, 8).Draw(t, "pdep"))
		if dep != 0 {
			dep++
		}
		if dep == s {
			dep = 0
		}
		p.Prios = append(p.Prios, struct {
			Stream uint32
			P      PrioParam
		}{s, PrioParam{Dep: dep, Exclusive: drawBool(t, "pex", 30), Weight: uint8(rapid.IntRange(0, 255).Draw(t, "pw"))}})
	}
	return p
}

// H2RequestFrames renders a request as HEADERS(+CONTINUATION)(+DATA).
func H2RequestFrames(enc *HEnc, stream uint32, r ReqSpec, pseudoOrder []string, prio *PrioParam, cuts []int, dataSizes []int) []Frame {
	if pseudoOrder == nil {
		pseudoOrder = []string{":method", ":scheme", ":authority", ":path"}
	}
	var fields [][2]string
	for _, k := range pseudoOrder {
		switch k {
		case ":method":
			fields = append(fields, [2]string{k, r.Method})
		case ":scheme":
			sch := r.Scheme
			if sch == "" {
				sch = "https"
			}
			fields = append(fields, [2]string{k, sch})
		case ":authority":
			fields = append(fields, [2]string{k, r.Host})
		case ":path":
			fields = append(fields, [2]string{k, r.Path})
		}
	}
	fields = append(fields, [2]string{"x-tag", r.Tag})
	for _, kv := range r.Header {
		fields = append(fields, [2]string{strings.ToLower(kv[0]), kv[1]})
	}
	if len(r.Body) > 0 {
		fields = append(fields, [2]string{"content-length", fmt.Sprint(len(r.Body))})
	}
	block := enc.Block(fields)
	fs := HeadersFrames(stream, block, len(r.Body) == 0, prio, -1, cuts)
	rest := r.Body
	for _, k := range dataSizes {
		if len(rest) == 0 {
			break
		}
		if k > len(rest) {
			k = len(rest)
		}
		if k <= 0 {
			continue
		}
		fs = append(fs, DataFrame(stream, rest[:k], k == len(rest), -1))
		rest = rest[k:]
	}
	if len(rest) > 0 {
		fs = append(fs, DataFrame(stream, rest, true, -1))
	}
	return fs
}

// H1 rendering of a ReqSpec.
func (r ReqSpec) H1() []byte {
	hdr := append([][2]string{{"X-Tag", r.Tag}}, r.Header...)
	return H1Request(r.Method, r.Path, r.Host, hdr, r.Body, nil)
}

type FrontOpts struct {
	MinClients, MaxClients int
	MaxReqs                int
	Proto                  string // force
	HeaderGen              func(t *rapid.T, proto string, ci, ri int) [][2]string
	Hello                  HelloOpts
	Segment                bool
	Sequential             bool // h2: await each request before the next
	SchemeHTTPPct          int  // h2: percentage of requests sent with ":scheme: http" (legal over TLS)
	FillCanonCachePct      int  // h2: percentage of connections whose first request carries 30 distinct uncommon header names
}

type ClientMeta struct {
	Kind     string
	Script   *H2Script
	Proto    string // offered: h2 / h1 / none
	Reqs     []ReqSpec
	Preamble H2Preamble
}

// DrawFront draws N clients, each with its own hello and a few requests.
func DrawFront(t *rapid.T, o FrontOpts) ([]*ClientPlan, []*ClientMeta) {
	n := rapid.IntRange(o.MinClients, o.MaxClients).Draw(t, "nclients")
	var cps []*ClientPlan
	var metas []*ClientMeta
	for ci := 0; ci < n; ci++ {
		ho := o.Hello
		if o.Proto != "" {
			ho.Proto = o.Proto
		}
		if ho.Proto == "" {
			ho.Proto = []string{"h2", "h1", "none"}[rapid.IntRange(0, 2).Draw(t, "proto")]
		}
		hello := DrawHello(t, ho)
		cp := &ClientPlan{ID: ci, Addr: drawAddr(t, ci), Hello: hello}
		if o.Segment {
			cp.Seg = drawSeg(t)
		}
		meta := &ClientMeta{Proto: ho.Proto}
		nreq := rapid.IntRange(1, o.MaxReqs).Draw(t, "nreq")
		cp.Steps = append(cp.Steps, Step{Kind: "connect"})
		if ho.Proto == "h2" {
			meta.Preamble = DrawPreamble(t)
			enc := NewHEnc()
			pre := append([]byte(ClientPreface), FramesBytes(meta.Preamble.Frames()...)...)
			cp.Steps = append(cp.Steps, Step{Kind: "write", Pieces: [][]byte{pre}})
			var ids []uint32
			fillCache := o.FillCanonCachePct > 0 && drawBool(t, "fillcache", o.FillCanonCachePct)
			for ri := 0; ri < nreq; ri++ {
				r := ReqSpec{Tag: fmt.Sprintf("c%d-r%d", ci, ri), Method: "GET", Path: fmt.Sprintf("/p%d", ri), Host: drawReqHost(t, ci)}
				if o.HeaderGen != nil {
					r.Header = o.HeaderGen(t, "h2", ci, ri)
				}
				if o.SchemeHTTPPct > 0 && drawBool(t, "schemehttp", o.SchemeHTTPPct) {
					r.Scheme = "http"
				}
				if ri == 0 && fillCache {
					// fills the server's per-connection cache of canonical header names
					var fill [][2]string
					for k := 0; k < 30; k++ {
						fill = append(fill, [2]string{fmt.Sprintf("x-fill-%d-%02d-uncommon", ci, k), "f"})
					}
					r.Header = append(fill, r.Header...)
				}
				meta.Reqs = append(meta.Reqs, r)
				id := uint32(2*ri + 1)
				ids = append(ids, id)
				fs := H2RequestFrames(enc, id, r, nil, nil, nil, nil)
				cp.Steps = append(cp.Steps, Step{Kind: "write", Pieces: [][]byte{FramesBytes(fs...)}, Tag: r.Tag})
				if o.Sequential {
					cp.Steps = append(cp.Steps, Step{Kind: "h2await", Streams: []uint32{id}})
				}
			}
			cp.Steps = append(cp.Steps, Step{Kind: "h2await", Streams: ids})
		} else {
			for ri := 0; ri < nreq; ri++ {
				r := ReqSpec{Tag: fmt.Sprintf("c%d-r%d", ci, ri), Method: "GET", Path: fmt.Sprintf("/p%d", ri), Host: drawReqHost(t, ci)}
				if o.HeaderGen != nil {
					r.Header = o.HeaderGen(t, "h1", ci, ri)
				}
				meta.Reqs = append(meta.Reqs, r)
				cp.Steps = append(cp.Steps, Step{Kind: "h1req", Pieces: [][]byte{r.H1()}, Tag: r.Tag})
			}
		}
		cp.Steps = append(cp.Steps, Step{Kind: "close"})
		cps = append(cps, cp)
		metas = append(metas, meta)
	}
	return cps, metas
}

// RebuildFrontSteps re-renders a client's steps after its request specs were edited.
func RebuildFrontSteps(cp *ClientPlan, m *ClientMeta) {
	steps := []Step{{Kind: "connect"}}
	if m.Proto == "h2" {
		enc := NewHEnc()
		pre := append([]byte(ClientPreface), FramesBytes(m.Preamble.Frames()...)...)
		steps = append(steps, Step{Kind: "write", Pieces: [][]byte{pre}})
		var ids []uint32
		for ri, r := range m.Reqs {
			id := uint32(2*ri + 1)
			ids = append(ids, id)
			steps = append(steps, Step{Kind: "write", Pieces: [][]byte{FramesBytes(H2RequestFrames(enc, id, r, nil, nil, nil, nil)...)}, Tag: r.Tag})
		}
		steps = append(steps, Step{Kind: "h2await", Streams: ids})
	} else {
		for _, r := range m.Reqs {
			steps = append(steps, Step{Kind: "h1req", Pieces: [][]byte{r.H1()}, Tag: r.Tag})
		}
	}
	cp.Steps = append(steps, Step{Kind: "close"})
}

// drawReqHost: the host a client addresses - mostly a plain name; sometimes with the scheme's
// default port spelt out, another port, or an IPv6 literal (wave 12, C09-s: a proxy that
// "normalises" what the client addressed)
func drawReqHost(t *rapid.T, ci int) string {
	h := fmt.Sprintf("h%d.verif.test", ci)
	if !drawBool(t, "hostform", 30) {
		return h
	}
	switch rapid.IntRange(0, 5).Draw(t, "hostkind") {
	case 0:
		return h + ":443"
	case 1:
		return h + ":8443"
	case 2:
		return fmt.Sprintf("[2001:db8::%x]:443", ci+1)
	case 3:
		return fmt.Sprintf("[2001:db8::%x]", ci+1)
	case 4:
		return fmt.Sprintf("H%d.Verif.TEST:443", ci)
	default:
		return fmt.Sprintf("192.0.2.%d:443", ci+1)
	}
}

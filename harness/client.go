package harness

import (
	"bufio"
	"bytes"
	"encoding/binary"
	"fmt"
	"io"
	"net/http"
	"sort"
	"strings"
	"time"

	utls "github.com/refraction-networking/utls"
	"golang.org/x/net/http2/hpack"
)

type Step struct {
	Kind string // connect, write, h1req, h1recv, h2await, close, reset, tcpwrite
	// write / h1req: pieces written with one tls Write each
	Pieces [][]byte
	Tag    string
	Method string // h1recv needs to know HEAD
	// h2await: streams that must have ended
	Streams []uint32
	// h2await: wait until this many frames of any kind have been received in total
	Note      string
	WhenQuiet bool // the step is offered to the controller only while nothing is in flight on this connection
	DelayMS   int  // sleep: simulated milliseconds
}

type ClientPlan struct {
	ID      int
	Addr    string // peer address "ip:port"
	Random  []byte // 32 octets: the ClientHello's random (nil: drawn by the TLS library)
	Hello   *HelloPlan
	Raw     bool // no TLS: "connect" just opens the TCP connection; "tcpwrite" sends bytes
	Seg     SegPlan
	SegDown string
	Steps   []Step

	// faults at a byte offset of the client->proxy stream
	AbortKind string // "", "fin", "rst"
	AbortAt   int
	StallOn   bool
	StallAt   int
	// the first step is enabled only after these clients have finished
	StartAfterDone   []int
	StartAfterPing   []int // start once these clients have had their barrier PING acknowledged (h2ping step)
	StartAfterCancel bool
	// clients with the same non-zero SessionGroup share a TLS session cache (resumption)
	SessionGroup int
	// the client gives up waiting for a response head / for echoed tunnel bytes after this
	// many seconds of simulated time (0: it waits for as long as the connection lasts)
	RespTimeoutS int
}

// InfoResp: an informational (1xx) response seen before the final one.
type InfoResp struct {
	Status int
	Header [][2]string
}

type RespRecord struct {
	Info    []InfoResp
	Tag     string
	Status  int
	Proto   string
	Header  http.Header
	Body    []byte
	Trailer http.Header
	Err     string
	Step    int
	Time    time.Duration
}

type RecvFrame struct {
	F    Frame
	Step int
}

type H2Stream struct {
	Info     []InfoResp // informational (1xx) header blocks before the final response
	ID       uint32
	Status   string
	Header   [][2]string
	Body     []byte
	Trailer  [][2]string
	Ended    bool
	RST      bool
	RSTCode  uint32
	Headers  int // number of header blocks
	DataLens []int
}

type Client struct {
	W    *World
	Plan *ClientPlan
	Name string

	gate chan struct{}
	quit chan struct{}

	aborted        bool
	Pinged         bool   // the h2ping step has seen its acknowledgement
	TunnelEcho     []byte // bytes echoed back through an upgraded connection
	Continues      int    // 100 (Continue) responses received in h1expect steps
	Marks          []int  // h2mark steps: body bytes received at that moment
	stalled        bool
	AbortedAt      time.Duration
	ConnectedAt    time.Duration
	started        bool
	hsDone         chan struct{}
	HandshakeBytes int // client->proxy bytes written when the handshake completed

	// guarded by W.mu
	atGate   bool
	done     bool
	stepIdx  int
	nextStep int

	conn *Conn
	tls  *utls.UConn
	br   *bufio.Reader

	ConnectErr   string
	HandshakeErr string
	HandshakeOK  bool
	NegProto     string
	TLSVersion   uint16
	Resps        []*RespRecord
	WriteSteps   []int // controller step at which each "write" step executed
	RawRead      []byte
	EndedAt      time.Duration // simulated time at which readeof returned
	StepErrs     []string

	// h2raw
	Recv         []RecvFrame
	Streams      map[uint32]*H2Stream
	GoAway       *Frame
	ReadErr      string
	ReadEnded    bool
	notify       chan struct{}
	hdec         *hpack.Decoder
	curHdr       *H2Stream
	hdrBuf       []byte
	hdrEndStream bool
}

func newClient(w *World, p *ClientPlan) *Client {
	return &Client{W: w, Plan: p, Name: fmt.Sprintf("c%d", p.ID), gate: make(chan struct{}), quit: make(chan struct{}),
		Streams: map[uint32]*H2Stream{}, notify: make(chan struct{})}
}

func (c *Client) AtGate() bool {
	c.W.mu.Lock()
	defer c.W.mu.Unlock()
	return c.atGate && !c.done
}

func (c *Client) Done() bool {
	c.W.mu.Lock()
	defer c.W.mu.Unlock()
	return c.done
}

func (c *Client) abort() {
	select {
	case <-c.quit:
	default:
		close(c.quit)
	}
}

func (c *Client) setGate(v bool) {
	c.W.mu.Lock()
	c.atGate = v
	c.W.mu.Unlock()
}

func (c *Client) run() {
	defer func() {
		c.W.mu.Lock()
		c.done = true
		c.atGate = false
		c.W.mu.Unlock()
	}()
	for i := range c.Plan.Steps {
		c.W.mu.Lock()
		c.nextStep = i
		c.W.mu.Unlock()
		c.setGate(true)
		select {
		case <-c.gate:
		case <-c.quit:
			return
		}
		c.setGate(false)
		c.W.mu.Lock()
		c.started = true
		c.stepIdx = i
		c.W.mu.Unlock()
		if err := c.exec(&c.Plan.Steps[i]); err != nil {
			c.W.mu.Lock()
			c.StepErrs = append(c.StepErrs, fmt.Sprintf("step %d %s: %v", i, c.Plan.Steps[i].Kind, err))
			c.W.mu.Unlock()
			if c.Plan.Steps[i].Kind == "connect" {
				return
			}
		}
	}
}

// Hello returns the first TLS record this client put on the wire.
func (c *Client) HelloRecord() []byte {
	if c.conn == nil {
		return nil
	}
	c.W.Net.mu.Lock()
	defer c.W.Net.mu.Unlock()
	b := c.conn.Written
	if len(b) < 5 {
		return nil
	}
	l := 5 + int(binary.BigEndian.Uint16(b[3:5]))
	if len(b) < l {
		return nil
	}
	return append([]byte(nil), b[:l]...)
}

func (c *Client) exec(s *Step) error {
	switch s.Kind {
	case "connect":
		conn, err := c.W.Front.Connect(c.Name, tcpAddr(c.Plan.Addr))
		if err != nil {
			c.ConnectErr = err.Error()
			return err
		}
		conn.Record = true
		c.conn = conn
		c.ConnectedAt = c.W.Now()
		if c.Plan.Raw {
			return nil
		}
		cfg := &utls.Config{InsecureSkipVerify: true, ServerName: c.Plan.Hello.SNI()}
		if g := c.Plan.SessionGroup; g != 0 {
			cfg.ClientSessionCache = c.W.sessionCache(g)
			cfg.OmitEmptyPsk = true
			// a hello without the pre_shared_key extension simply does not resume (utls panics
			// otherwise when the shared cache already holds a session for the name)
			cfg.PreferSkipResumptionOnNilExtension = true
			if cfg.ServerName == "" {
				cfg.ServerName = "resume.verif.test"
			}
		}
		u := utls.UClient(conn, cfg, utls.HelloCustom)
		if err := u.ApplyPreset(c.Plan.Hello.Spec()); err != nil {
			c.HandshakeErr = "preset: " + err.Error()
			return err
		}
		if len(c.Plan.Random) == 32 {
			u.SetClientRandom(c.Plan.Random) // (ApplyPreset draws a fresh one)
		}
		if lv := c.Plan.Hello.LegacyVers; lv != 0 {
			u.HandshakeState.Hello.Vers = lv
		}
		c.tls = u
		if err := u.Handshake(); err != nil {
			c.HandshakeErr = err.Error()
			c.EndedAt = c.W.Now()
			return err
		}
		st := u.ConnectionState()
		if st.DidResume {
			c.W.Probe("tls_session_resumed")
		}
		c.W.Net.mu.Lock()
		c.HandshakeBytes = conn.out.total
		c.W.Net.mu.Unlock()
		c.W.mu.Lock()
		c.HandshakeOK = true
		c.NegProto = st.NegotiatedProtocol
		c.TLSVersion = st.Version
		c.W.mu.Unlock()
		c.br = bufio.NewReader(u)
		if st.NegotiatedProtocol == "h2" {
			c.hdec = hpack.NewDecoder(4096, nil)
			go c.h2reader()
		}
		return nil
	case "connect_bg":
		// open the TCP connection now, run the TLS handshake in the background
		conn, err := c.W.Front.Connect(c.Name, tcpAddr(c.Plan.Addr))
		if err != nil {
			c.ConnectErr = err.Error()
			return err
		}
		conn.Record = true
		c.conn = conn
		if c.Plan.Raw {
			return nil
		}
		cfg := &utls.Config{InsecureSkipVerify: true, ServerName: c.Plan.Hello.SNI()}
		u := utls.UClient(conn, cfg, utls.HelloCustom)
		if err := u.ApplyPreset(c.Plan.Hello.Spec()); err != nil {
			c.HandshakeErr = "preset: " + err.Error()
			return err
		}
		if len(c.Plan.Random) == 32 {
			u.SetClientRandom(c.Plan.Random) // (ApplyPreset draws a fresh one)
		}
		if lv := c.Plan.Hello.LegacyVers; lv != 0 {
			u.HandshakeState.Hello.Vers = lv
		}
		c.tls = u
		c.ConnectedAt = c.W.Now()
		c.hsDone = make(chan struct{})
		go func() {
			err := u.Handshake()
			c.W.mu.Lock()
			defer c.W.mu.Unlock()
			defer close(c.hsDone)
			if err != nil {
				c.HandshakeErr = err.Error()
				c.EndedAt = c.W.Now()
				return
			}
			st := u.ConnectionState()
			c.HandshakeOK = true
			c.NegProto = st.NegotiatedProtocol
			c.TLSVersion = st.Version
		}()
		return nil
	case "hswait":
		if c.hsDone == nil {
			return fmt.Errorf("no background handshake")
		}
		select {
		case <-c.hsDone:
		case <-c.quit:
		}
		return nil
	case "tcpwrite":
		if c.conn == nil {
			return fmt.Errorf("not connected")
		}
		for _, p := range s.Pieces {
			if _, err := c.conn.Write(p); err != nil {
				return err
			}
		}
		return nil
	case "tcpread":
		// read until EOF / error; keep what came
		if c.conn == nil {
			return fmt.Errorf("not connected")
		}
		b, err := io.ReadAll(c.conn)
		c.W.mu.Lock()
		c.Resps = append(c.Resps, &RespRecord{Tag: s.Tag, Body: b, Step: c.W.Step})
		if err != nil {
			c.ReadErr = err.Error()
		}
		c.W.mu.Unlock()
		return nil
	case "write":
		if c.tls == nil {
			return fmt.Errorf("not connected")
		}
		c.W.mu.Lock()
		c.WriteSteps = append(c.WriteSteps, c.W.Step)
		c.W.mu.Unlock()
		for _, p := range s.Pieces {
			if _, err := c.tls.Write(p); err != nil {
				return err
			}
		}
		return nil
	case "h1req":
		if c.tls == nil {
			return fmt.Errorf("not connected")
		}
		for _, p := range s.Pieces {
			if _, err := c.tls.Write(p); err != nil {
				c.recordResp(&RespRecord{Tag: s.Tag, Err: "write: " + err.Error()})
				return err
			}
		}
		return c.h1recv(s)
	case "h1recv":
		if c.tls == nil {
			return fmt.Errorf("not connected")
		}
		return c.h1recv(s)
	case "h1expect":
		// Expect: 100-continue - Pieces[0] is the request head, the rest is the body, which is
		// sent when the first 100 (Continue) arrives and not at all if a final response comes first
		if c.tls == nil {
			return fmt.Errorf("not connected")
		}
		if _, err := c.tls.Write(s.Pieces[0]); err != nil {
			c.recordResp(&RespRecord{Tag: s.Tag, Err: "write: " + err.Error()})
			return err
		}
		return c.h1recv(s)
	case "h2await", "h2headers", "h2bytes":
		return c.h2await(s)
	case "h2mark":
		// remember how many body bytes of the stream have arrived by now
		c.W.mu.Lock()
		n := 0
		if st := c.Streams[s.Streams[0]]; st != nil {
			n = len(st.Body)
		}
		c.Marks = append(c.Marks, n)
		c.W.mu.Unlock()
		return nil
	case "h2ping":
		// wait for the acknowledgement of the barrier PING (payload starts with 0xfc)
		for {
			c.W.mu.Lock()
			got := false
			for _, rf := range c.Recv {
				if rf.F.Type == FPing && rf.F.Flags&FlagAck != 0 && len(rf.F.Payload) == 8 && rf.F.Payload[0] == 0xfc && (len(s.Streams) == 0 || uint32(rf.F.Payload[1]) == s.Streams[0]) {
					got = true
				}
			}
			ended := c.ReadEnded
			ch := c.notify
			c.W.mu.Unlock()
			if got {
				c.W.mu.Lock()
				c.Pinged = true
				c.W.mu.Unlock()
				return nil
			}
			if ended {
				return fmt.Errorf("connection ended before the PING was acknowledged")
			}
			select {
			case <-ch:
			case <-c.quit:
				return fmt.Errorf("aborted")
			}
		}
	case "tunnel":
		// after a protocol upgrade: send the bytes, read as many echoed bytes back
		if c.tls == nil {
			return fmt.Errorf("not connected")
		}
		want := 0
		for _, p := range s.Pieces {
			if _, err := c.tls.Write(p); err != nil {
				return err
			}
			want += len(p)
		}
		got := make([]byte, want)
		if c.Plan.RespTimeoutS > 0 {
			c.tls.SetReadDeadline(time.Now().Add(time.Duration(c.Plan.RespTimeoutS) * time.Second))
			defer c.tls.SetReadDeadline(time.Time{})
		}
		n, err := io.ReadFull(c.br, got)
		c.W.mu.Lock()
		c.TunnelEcho = append(c.TunnelEcho, got[:n]...)
		if err == nil {
			c.W.Probes["tunnel_message_echoed"]++
		}
		c.W.mu.Unlock()
		return err
	case "sleep":
		// the client does nothing for DelayMS of simulated time (the controller advances the
		// clock when nothing else is enabled)
		time.Sleep(time.Duration(s.DelayMS) * time.Millisecond)
		return nil
	case "close":
		if c.tls != nil {
			return c.tls.Close()
		}
		if c.conn != nil {
			return c.conn.Close()
		}
		return nil
	case "reset":
		if c.conn != nil {
			c.W.Net.Reset(c.conn)
		}
		return nil
	case "readeof":
		// wait for the server to close the connection
		if c.Plan.Raw && c.conn != nil {
			b, err := io.ReadAll(c.conn)
			c.W.mu.Lock()
			c.ReadEnded = true
			c.EndedAt = c.W.Now()
			c.RawRead = append(c.RawRead, b...)
			if err != nil {
				c.ReadErr = err.Error()
			}
			c.W.mu.Unlock()
			return nil
		}
		if c.tls == nil {
			return fmt.Errorf("not connected")
		}
		if c.br == nil {
			c.W.mu.Lock()
			ok := c.HandshakeOK
			c.W.mu.Unlock()
			if !ok {
				return nil // the handshake already failed: the connection is gone
			}
			c.br = bufio.NewReader(c.tls)
		}
		if c.NegProto == "h2" && c.hdec != nil {
			for {
				c.W.mu.Lock()
				ended := c.ReadEnded
				ch := c.notify
				if ended && c.EndedAt == 0 {
					c.EndedAt = c.W.Now()
				}
				c.W.mu.Unlock()
				if ended {
					return nil
				}
				select {
				case <-ch:
				case <-c.quit:
					return fmt.Errorf("aborted")
				}
			}
		}
		_, err := io.Copy(io.Discard, c.br)
		c.W.mu.Lock()
		c.ReadEnded = true
		c.EndedAt = c.W.Now()
		if err != nil {
			c.ReadErr = err.Error()
		}
		c.W.mu.Unlock()
		return nil
	}
	return fmt.Errorf("unknown step kind %q", s.Kind)
}

func (c *Client) recordResp(r *RespRecord) {
	c.W.mu.Lock()
	r.Step = c.W.Step
	r.Time = c.W.Now()
	c.Resps = append(c.Resps, r)
	c.W.mu.Unlock()
}

func (c *Client) h1recv(s *Step) error {
	if c.Plan.RespTimeoutS > 0 {
		c.tls.SetReadDeadline(time.Now().Add(time.Duration(c.Plan.RespTimeoutS) * time.Second))
		defer c.tls.SetReadDeadline(time.Time{})
	}
	m := s.Method
	if m == "" {
		m = "GET"
	}
	var info []InfoResp
	var resp *http.Response
	for {
		var err error
		resp, err = http.ReadResponse(c.br, &http.Request{Method: m})
		if err != nil {
			c.recordResp(&RespRecord{Tag: s.Tag, Err: "read: " + err.Error(), Info: info})
			return err
		}
		if resp.StatusCode == 100 && s.Kind == "h1expect" {
			// the go-ahead for the body (more than one 100 may arrive: the proxy's own and the
			// back-end's, forwarded); the body is sent once
			c.W.mu.Lock()
			c.Continues++
			first := c.Continues == 1
			c.W.mu.Unlock()
			if first {
				for _, p := range s.Pieces[1:] {
					if _, err := c.tls.Write(p); err != nil {
						c.recordResp(&RespRecord{Tag: s.Tag, Err: "write body: " + err.Error(), Info: info})
						return err
					}
				}
			}
			continue
		}
		if resp.StatusCode >= 100 && resp.StatusCode < 200 && resp.StatusCode != 101 {
			// informational: no body; the final response follows
			var hs [][2]string
			for k, vv := range resp.Header {
				for _, v := range vv {
					hs = append(hs, [2]string{strings.ToLower(k), v})
				}
			}
			sort.Slice(hs, func(i, j int) bool { return hs[i][0]+"\x00"+hs[i][1] < hs[j][0]+"\x00"+hs[j][1] })
			info = append(info, InfoResp{Status: resp.StatusCode, Header: hs})
			continue
		}
		break
	}
	body, berr := io.ReadAll(resp.Body)
	resp.Body.Close()
	r := &RespRecord{Tag: s.Tag, Status: resp.StatusCode, Proto: resp.Proto, Header: resp.Header, Body: body, Trailer: resp.Trailer, Info: info}
	if berr != nil {
		r.Err = "body: " + berr.Error()
	}
	c.recordResp(r)
	return berr
}

// -------------------------------------------------------------- h2raw

func (c *Client) broadcast() {
	close(c.notify)
	c.notify = make(chan struct{})
}

func (c *Client) h2reader() {
	var buf []byte
	tmp := make([]byte, 32<<10)
	for {
		n, err := c.tls.Read(tmp)
		buf = append(buf, tmp[:n]...)
		for {
			f, k, ok := ParseFrame(buf)
			if !ok {
				break
			}
			buf = buf[k:]
			c.W.mu.Lock()
			c.Recv = append(c.Recv, RecvFrame{f, c.W.Step})
			c.onFrame(f)
			c.broadcast()
			c.W.mu.Unlock()
		}
		if err != nil {
			c.W.mu.Lock()
			c.ReadEnded = true
			c.ReadErr = err.Error()
			c.broadcast()
			c.W.mu.Unlock()
			return
		}
	}
}

func (c *Client) stream(id uint32) *H2Stream {
	s := c.Streams[id]
	if s == nil {
		s = &H2Stream{ID: id}
		c.Streams[id] = s
	}
	return s
}

// onFrame is called with W.mu held.
func (c *Client) onFrame(f Frame) {
	id := f.Stream & 0x7fffffff
	switch f.Type {
	case FHeaders:
		s := c.stream(id)
		p := f.Payload
		if f.Flags&FlagPadded != 0 && len(p) > 0 {
			pad := int(p[0])
			p = p[1:]
			if pad <= len(p) {
				p = p[:len(p)-pad]
			}
		}
		if f.Flags&FlagPriority != 0 && len(p) >= 5 {
			p = p[5:]
		}
		c.curHdr = s
		c.hdrBuf = append([]byte(nil), p...)
		c.hdrEndStream = f.Flags&FlagEndStream != 0
		if f.Flags&FlagEndHeaders != 0 {
			c.finishHeaders()
		}
	case FContinuation:
		c.hdrBuf = append(c.hdrBuf, f.Payload...)
		if f.Flags&FlagEndHeaders != 0 {
			c.finishHeaders()
		}
	case FData:
		s := c.stream(id)
		p := f.Payload
		if f.Flags&FlagPadded != 0 && len(p) > 0 {
			pad := int(p[0])
			p = p[1:]
			if pad <= len(p) {
				p = p[:len(p)-pad]
			}
		}
		s.Body = append(s.Body, p...)
		s.DataLens = append(s.DataLens, len(f.Payload))
		if f.Flags&FlagEndStream != 0 {
			s.Ended = true
		}
	case FRSTStream:
		s := c.stream(id)
		s.RST = true
		if len(f.Payload) >= 4 {
			s.RSTCode = binary.BigEndian.Uint32(f.Payload)
		}
	case FGoAway:
		if c.GoAway == nil {
			ff := f
			c.GoAway = &ff
		}
	}
}

func (c *Client) finishHeaders() {
	s := c.curHdr
	if s == nil {
		return
	}
	fields, err := c.hdec.DecodeFull(c.hdrBuf)
	if err != nil {
		c.ReadErr = "hpack: " + err.Error()
	}
	s.Headers++
	status := ""
	var plain [][2]string
	for _, hf := range fields {
		if hf.Name == ":status" {
			status = hf.Value
		} else {
			plain = append(plain, [2]string{hf.Name, hf.Value})
		}
	}
	if status != "" && (s.Status == "" || strings.HasPrefix(s.Status, "1")) {
		if strings.HasPrefix(status, "1") {
			n := 0
			fmt.Sscanf(status, "%d", &n)
			s.Info = append(s.Info, InfoResp{Status: n, Header: plain})
		}
		s.Status = status
		s.Header = plain
	} else {
		s.Trailer = append(s.Trailer, plain...)
	}
	if c.hdrEndStream {
		s.Ended = true
	}
	c.curHdr = nil
	c.hdrBuf = nil
}

func (c *Client) h2await(s *Step) error {
	for {
		c.W.mu.Lock()
		ok := true
		for _, id := range s.Streams {
			st := c.Streams[id]
			if s.Kind == "h2bytes" {
				// at least DelayMS (sic: a byte count here) body bytes of the stream have arrived
				if st == nil || !(len(st.Body) >= s.DelayMS || st.Ended || st.RST) {
					ok = false
				}
				continue
			}
			if s.Kind == "h2headers" {
				// only the response's header block (or the end of the stream) is waited for
				if st == nil || !(st.Headers > 0 || st.Ended || st.RST) {
					ok = false
				}
				continue
			}
			if st == nil || !(st.Ended || st.RST) {
				ok = false
			}
		}
		ended := c.ReadEnded
		ch := c.notify
		c.W.mu.Unlock()
		if ok {
			return nil
		}
		if ended {
			return fmt.Errorf("connection ended before streams %v completed", s.Streams)
		}
		select {
		case <-ch:
		case <-c.quit:
			return fmt.Errorf("aborted")
		}
	}
}

// ---------------------------------------------------------- builders

// H1Request renders an HTTP/1.1 request.
func H1Request(method, target, host string, hdr [][2]string, body []byte, chunked []int) []byte {
	var b bytes.Buffer
	fmt.Fprintf(&b, "%s %s HTTP/1.1\r\n", method, target)
	if host != "" {
		fmt.Fprintf(&b, "Host: %s\r\n", host)
	}
	for _, kv := range hdr {
		fmt.Fprintf(&b, "%s: %s\r\n", kv[0], kv[1])
	}
	if chunked != nil {
		b.WriteString("Transfer-Encoding: chunked\r\n\r\n")
		rest := body
		for _, k := range chunked {
			if k <= 0 {
				continue
			}
			if k > len(rest) {
				k = len(rest)
			}
			if k == 0 {
				break
			}
			fmt.Fprintf(&b, "%x\r\n", k)
			b.Write(rest[:k])
			b.WriteString("\r\n")
			rest = rest[k:]
		}
		if len(rest) > 0 {
			fmt.Fprintf(&b, "%x\r\n", len(rest))
			b.Write(rest)
			b.WriteString("\r\n")
		}
		b.WriteString("0\r\n\r\n")
	} else {
		if len(body) > 0 || method == "POST" || method == "PUT" {
			fmt.Fprintf(&b, "Content-Length: %d\r\n", len(body))
		}
		b.WriteString("\r\n")
		b.Write(body)
	}
	return b.Bytes()
}

// HpackEncode encodes fields with a fresh or shared encoder.
type HEnc struct {
	buf bytes.Buffer
	enc *hpack.Encoder
}

func NewHEnc() *HEnc {
	h := &HEnc{}
	h.enc = hpack.NewEncoder(&h.buf)
	return h
}

func (h *HEnc) Block(fields [][2]string) []byte {
	h.buf.Reset()
	for _, kv := range fields {
		h.enc.WriteField(hpack.HeaderField{Name: kv[0], Value: kv[1]})
	}
	return append([]byte(nil), h.buf.Bytes()...)
}

package harness

// refh2fp: the HTTP/2 fingerprint of a prefix of the client's frame history,
// written from the property text (C03), not from pkg/metadata.

import (
	"fmt"
	"strconv"
	"strings"
)

// FPEvent is one fingerprint-relevant client frame (or header block).
type FPEvent struct {
	Kind     string // "settings", "wu", "prio", "headers"
	Settings []Setting
	Inc      uint32
	Stream   uint32
	Prio     *PrioParam // prio event, or headers carrying priority
	Pseudo   []string   // headers: pseudo-header names in order (without colon)
	WriteIdx int        // index of the client write step that carried the (end of the) frame
}

type FPState struct {
	Settings  []Setting
	HasWU     bool
	WU        uint32
	Prios     []string
	LastBlock []string
}

func (s *FPState) Apply(e FPEvent) {
	switch e.Kind {
	case "settings":
		s.Settings = e.Settings
	case "wu":
		if !s.HasWU {
			s.HasWU = true
			s.WU = e.Inc
		}
	case "prio":
		s.Prios = append(s.Prios, prioString(e.Stream, *e.Prio))
	case "headers":
		if e.Prio != nil {
			s.Prios = append(s.Prios, prioString(e.Stream, *e.Prio))
		}
		s.LastBlock = e.Pseudo
	}
}

func prioString(stream uint32, p PrioParam) string {
	ex := 0
	if p.Exclusive {
		ex = 1
	}
	return fmt.Sprintf("%d:%d:%d:%d", stream, ex, p.Dep, int(p.Weight)+1)
}

// Match compares a header value with the fingerprint of this state under
// priority limit n (n<0: unlimited).  WU is compared numerically.
func (s *FPState) Match(got string, n int) (bool, string) {
	parts := strings.Split(got, "|")
	if len(parts) != 4 {
		return false, fmt.Sprintf("%d '|'-separated parts", len(parts))
	}
	var ss []string
	for _, x := range s.Settings {
		ss = append(ss, fmt.Sprintf("%d:%d", x.ID, x.Val))
	}
	if want := strings.Join(ss, ";"); parts[0] != want {
		return false, fmt.Sprintf("S=%q want %q", parts[0], want)
	}
	if !s.HasWU {
		if parts[1] != "00" {
			return false, fmt.Sprintf("WU=%q want \"00\"", parts[1])
		}
	} else {
		v, err := strconv.ParseUint(parts[1], 10, 32)
		if err != nil || uint32(v) != s.WU {
			return false, fmt.Sprintf("WU=%q want %d", parts[1], s.WU)
		}
	}
	pr := s.Prios
	if n >= 0 && len(pr) > n {
		pr = pr[:n]
	}
	wantP := "0"
	if len(pr) > 0 {
		wantP = strings.Join(pr, ",")
	}
	if parts[2] != wantP {
		return false, fmt.Sprintf("P=%q want %q", parts[2], wantP)
	}
	var ps []string
	for _, n := range s.LastBlock {
		if len(n) > 0 {
			ps = append(ps, n[:1])
		}
	}
	if want := strings.Join(ps, ","); parts[3] != want {
		return false, fmt.Sprintf("PS=%q want %q", parts[3], want)
	}
	return true, ""
}

// MatchAny: got must equal the fingerprint of some prefix events[:j], lo <= j <= hi.
func MatchAnyPrefix(events []FPEvent, lo, hi int, got string, n int) (bool, string) {
	var st FPState
	why := ""
	for j := 0; j <= hi && j <= len(events); j++ {
		if j > 0 {
			st.Apply(events[j-1])
		}
		if j >= lo {
			ok, w := st.Match(got, n)
			if ok {
				return true, ""
			}
			if why == "" {
				why = w
			}
		}
	}
	return false, why
}

package harness

// schedmon: in-situ monitor for the HTTP/2 write schedulers (C20).  Installed
// through http2.Server.NewWriteScheduler, it delegates to the real scheduler
// and checks every operation against refsched, a list-based model (control
// FIFO + per-stream FIFOs).

import (
	"bytes"
	"fmt"
	"strings"

	"github.com/wi1dcard/fingerproxy/pkg/http2"
)

type mwr struct {
	seq       int
	kind      string
	isData    bool
	data      []byte // copy of the DATA payload
	off       int    // bytes already handed out
	endStream bool
	wr        http2.FrameWriteRequest
}

type schedMonitor struct {
	w       *World
	inner   http2.WriteScheduler
	kind    string
	control []*mwr
	streams map[uint32][]*mwr
	seq     int
	failed  bool
	ops     int
	oplog   []string // the last operations, for the violation report
	// the priority tree was found broken: the real scheduler is not called any more (its walks
	// over a cyclic structure do not end - not even the clean-up of the dying connection)
	abandoned bool
}

func (m *schedMonitor) logOp(format string, args ...any) {
	m.oplog = append(m.oplog, fmt.Sprintf(format, args...))
	if len(m.oplog) > 60 {
		m.oplog = m.oplog[len(m.oplog)-60:]
	}
}

type SchedStats struct {
	Pushes, Pops, EmptyPops, Splits, Closes, Adjusts, DroppedByClose, TreeChecks int
}

func (w *World) newScheduler() http2.WriteScheduler {
	var inner http2.WriteScheduler
	switch w.Plan.SchedKind {
	case "priority":
		inner = http2.NewPriorityWriteScheduler(w.Plan.SchedCfg)
	case "random":
		inner = http2.NewRandomWriteScheduler()
	default:
		inner = http2.VerifNewRoundRobinWriteScheduler()
	}
	if !w.Plan.SchedMonitor {
		return inner
	}
	return &schedMonitor{w: w, inner: inner, kind: w.Plan.SchedKind, streams: map[uint32][]*mwr{}}
}

func (m *schedMonitor) bad(class, format string, args ...any) {
	if m.failed {
		return
	}
	m.failed = true
	m.w.Violate(class, class, "write scheduler %q after %d operations: %s | last operations: %s", m.kind, m.ops, fmt.Sprintf(format, args...), strings.Join(m.oplog, "; "))
}

func (m *schedMonitor) tree(where string) {
	if isP, problem := http2.VerifPriorityTree(m.inner); isP {
		m.w.mu.Lock()
		m.w.Sched.TreeChecks++
		m.w.mu.Unlock()
		if problem != "" {
			m.bad("sched_tree", "priority tree broken after %s: %s", where, problem)
			// the real scheduler is not to be trusted with this structure any more (a walk
			// over a cycle never ends): the connection is given up - the panic unwinds the
			// serve loop and is confined to the connection by the proxy - so that the run
			// can end and report what was recorded
			m.abandoned = true
			panic("verif: write scheduler monitor: priority tree broken, connection abandoned")
		}
	}
}

func (m *schedMonitor) OpenStream(id uint32, o http2.OpenStreamOptions) {
	if m.abandoned {
		return
	}
	m.ops++
	m.logOp("Open(%d,pusher=%d)", id, o.PusherID)
	m.inner.OpenStream(id, o)
	m.tree(fmt.Sprintf("OpenStream(%d)", id))
}

func (m *schedMonitor) CloseStream(id uint32) {
	if m.abandoned {
		return
	}
	m.ops++
	m.logOp("Close(%d)", id)
	m.w.mu.Lock()
	m.w.Sched.Closes++
	m.w.Sched.DroppedByClose += len(m.streams[id])
	m.w.mu.Unlock()
	delete(m.streams, id)
	m.inner.CloseStream(id)
	m.tree(fmt.Sprintf("CloseStream(%d)", id))
}

func (m *schedMonitor) AdjustStream(id uint32, p http2.PriorityParam) {
	if m.abandoned {
		return
	}
	m.ops++
	m.logOp("Adjust(%d,dep=%d,excl=%v,w=%d)", id, p.StreamDep, p.Exclusive, p.Weight)
	m.w.mu.Lock()
	m.w.Sched.Adjusts++
	m.w.mu.Unlock()
	m.inner.AdjustStream(id, p)
	m.tree(fmt.Sprintf("AdjustStream(%d, dep=%d excl=%v w=%d)", id, p.StreamDep, p.Exclusive, p.Weight))
}

func (m *schedMonitor) Push(wr http2.FrameWriteRequest) {
	if m.abandoned {
		return
	}
	m.ops++
	v := http2.VerifInspect(wr)
	m.logOp("Push(%s,stream=%d,len=%d)", v.Kind, v.StreamID, len(v.Data))
	m.seq++
	e := &mwr{seq: m.seq, kind: v.Kind, isData: v.IsData, endStream: v.EndStream, wr: wr}
	if v.IsData {
		e.data = append([]byte(nil), v.Data...)
	}
	if v.IsControl {
		m.control = append(m.control, e)
	} else {
		m.streams[v.StreamID] = append(m.streams[v.StreamID], e)
	}
	m.w.mu.Lock()
	m.w.Sched.Pushes++
	m.w.mu.Unlock()
	m.inner.Push(wr)
}

func (m *schedMonitor) Pop() (http2.FrameWriteRequest, bool) {
	if m.abandoned {
		return http2.FrameWriteRequest{}, false
	}
	m.ops++
	// windows before the pop (Consume deducts inside Pop)
	avail := map[uint32]int32{}
	maxFrame := map[uint32]int32{}
	for id, q := range m.streams {
		if len(q) > 0 && q[0].isData {
			v := http2.VerifInspect(q[0].wr)
			avail[id] = v.StreamAvail
			maxFrame[id] = v.MaxFrame
		}
	}
	wr, ok := m.inner.Pop()
	if ok {
		pv := http2.VerifInspect(wr)
		m.logOp("Pop->%s(stream=%d,len=%d)", pv.Kind, pv.StreamID, len(pv.Data))
	} else {
		m.logOp("Pop->none")
	}
	m.w.mu.Lock()
	m.w.Sched.Pops++
	if !ok {
		m.w.Sched.EmptyPops++
	}
	m.w.mu.Unlock()
	if !ok {
		if len(m.control) > 0 {
			m.bad("sched_false_empty", "Pop reported nothing to write while %d control frames are queued (first: %s)", len(m.control), m.control[0].kind)
		}
		for id, q := range m.streams {
			if len(q) == 0 {
				continue
			}
			h := q[0]
			if !h.isData || len(h.data)-h.off == 0 {
				m.bad("sched_false_empty", "Pop reported nothing to write while stream %d has a sendable %s queued", id, h.kind)
			} else if avail[id] > 0 {
				m.bad("sched_false_empty", "Pop reported nothing to write while stream %d has %d DATA bytes queued and %d bytes of window", id, len(h.data)-h.off, avail[id])
			}
		}
		return wr, ok
	}
	v := http2.VerifInspect(wr)
	if v.IsControl {
		if len(m.control) == 0 {
			m.bad("sched_phantom", "Pop returned control frame %s that was never pushed (or twice)", v.Kind)
			return wr, ok
		}
		h := m.control[0]
		if h.kind != v.Kind || http2.VerifInspect(h.wr).StreamID != v.StreamID {
			m.bad("sched_order", "control frames out of order: popped %s (stream %d), head of queue is %s", v.Kind, v.StreamID, h.kind)
		}
		m.control = m.control[1:]
		return wr, ok
	}
	if len(m.control) > 0 {
		m.bad("sched_control_after_data", "Pop returned %s for stream %d while %d control frames are queued", v.Kind, v.StreamID, len(m.control))
	}
	q := m.streams[v.StreamID]
	if len(q) == 0 {
		m.bad("sched_phantom", "Pop returned %s for stream %d whose queue is empty (never pushed, popped twice, or stream closed)", v.Kind, v.StreamID)
		return wr, ok
	}
	h := q[0]
	if h.isData != v.IsData || (!h.isData && h.kind != v.Kind) {
		m.bad("sched_order", "stream %d: popped %s, head of its queue is %s", v.StreamID, v.Kind, h.kind)
		return wr, ok
	}
	if !h.isData {
		m.streams[v.StreamID] = q[1:]
		return wr, ok
	}
	n := len(v.Data)
	rest := h.data[h.off:]
	if n > len(rest) || !bytes.Equal(v.Data, rest[:n]) {
		m.bad("sched_data", "stream %d: popped DATA piece of %d bytes is not the next part of the queued frame (%d bytes left)", v.StreamID, n, len(rest))
		return wr, ok
	}
	if len(rest) > 0 {
		if int32(n) > avail[v.StreamID] {
			m.bad("sched_window", "stream %d: popped %d DATA bytes with only %d bytes of stream/connection window", v.StreamID, n, avail[v.StreamID])
		}
		if int32(n) > maxFrame[v.StreamID] {
			m.bad("sched_frame_size", "stream %d: popped %d DATA bytes, peer's maximum frame size is %d", v.StreamID, n, maxFrame[v.StreamID])
		}
		if n == 0 {
			m.bad("sched_data", "stream %d: popped an empty piece of a non-empty DATA frame", v.StreamID)
		}
	}
	h.off += n
	if h.off < len(h.data) {
		m.w.mu.Lock()
		m.w.Sched.Splits++
		m.w.mu.Unlock()
		if v.EndStream {
			m.bad("sched_data", "stream %d: END_STREAM on a piece that is not the last one", v.StreamID)
		}
	} else {
		if v.EndStream != h.endStream {
			m.bad("sched_data", "stream %d: END_STREAM flag of the last piece differs from the queued frame", v.StreamID)
		}
		m.streams[v.StreamID] = q[1:]
	}
	return wr, ok
}

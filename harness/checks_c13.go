package harness

// C13: HTTP/2 stream state machine.  A scripted raw-frame client puts streams
// into known states (back-end handlers are parked, so the server-side state is
// determined by the client's frames alone), then sends probe frames.  refh2sm
// is the catalogue below: for (state, frame) it gives the set of admissible
// reactions, written from RFC 7540 / 9113 (DESIGN.md appendix A).

import (
	"encoding/binary"
	"fmt"
	"strings"

	"pgregory.net/rapid"
)

type probe struct {
	Name    string
	Frames  []Frame
	Kind    string   // "legal", "stream", "conn"
	Stream  uint32   // stream-kind: the stream that must be reset
	Codes   []uint32 // admissible error codes
	OrConn  []uint32 // stream-kind: a connection error with one of these codes is admissible too
	OrLocal bool     // stream-kind: a locally generated 4xx response instead of RST_STREAM is admissible
	BadTag  string   // a request that must never reach a handler
	GoodTag string   // a request that must reach the handler
	Ping    *[8]byte
}

type c13Ctx struct {
	enc      *HEnc
	ci       int
	next     uint32 // next unused odd stream id
	half     uint32 // GET complete, handler parked: half-closed (remote)
	open     uint32 // POST without END_STREAM: open
	reset    uint32 // reset by the client: closed
	ntag     int
	resp     map[string]*RespPlan
	hold     bool
	graceful bool // the client has sent GOAWAY(NO_ERROR): probes stay on existing streams
	big      bool // the server was configured to advertise SETTINGS_HEADER_TABLE_SIZE = 8192
	forceTSU bool
}

func (x *c13Ctx) tag() string {
	x.ntag++
	return fmt.Sprintf("c%d-q%d", x.ci, x.ntag)
}

func (x *c13Ctx) newID() uint32 {
	id := x.next
	x.next += 2
	return id
}

func (x *c13Ctx) fields(tag, method string, extra ...[2]string) [][2]string {
	f := [][2]string{{":method", method}, {":scheme", "https"}, {":authority", "sm.verif.test"}, {":path", "/" + tag}, {"x-tag", tag}}
	return append(f, extra...)
}

// request renders a well-formed request; held requests park in the back-end.
func (x *c13Ctx) request(id uint32, tag, method string, endStream bool, hold bool) []Frame {
	if hold {
		x.resp[tag] = &RespPlan{Status: 200, Body: []byte("ok:" + tag), Park: true}
	}
	return HeadersFrames(id, x.enc.Block(x.fields(tag, method)), endStream, nil, -1, nil)
}

var (
	cP  = []uint32{ErrProtocol}
	cFS = []uint32{ErrFrameSize}
	cSC = []uint32{ErrStreamClosed}
	cFC = []uint32{ErrFlowControl}
)

const nProbeKinds = 50

// buildProbe constructs probe number k in the current connection state.
func buildProbe(t *rapid.T, x *c13Ctx, k int) *probe {
	u32 := func(v uint32) []byte { return binary.BigEndian.AppendUint32(nil, v) }
	switch k {
	// ------------------------------------------------ legal: must never draw an error
	case 0:
		return &probe{Name: "unknown frame type on stream 0", Kind: "legal", Frames: []Frame{{Type: 0xee, Payload: []byte{1, 2, 3}}}}
	case 1:
		return &probe{Name: "unknown frame type on an open stream", Kind: "legal", Frames: []Frame{{Type: 0x77, Stream: x.open, Flags: 0xff, Payload: []byte{9}}}}
	case 2:
		if drawBool(t, "settingsedge", 50) {
			// the ends of the legal ranges of the known ids (RFC 9113 6.5.2)
			edge := []Setting{{5, 16384}, {5, 1<<24 - 1}, {2, 0}, {2, 1}, {3, 0}, {3, 0xffffffff}, {1, 0}, {1, 0xffffffff}, {6, 0xffffffff}, {8, 0}, {8, 1}}[rapid.IntRange(0, 10).Draw(t, "settingsedgev")]
			return &probe{Name: fmt.Sprintf("SETTINGS with a value at the end of its legal range %v", edge), Kind: "legal", Frames: []Frame{SettingsFrame(edge)}}
		}
		return &probe{Name: "SETTINGS with unknown ids", Kind: "legal", Frames: []Frame{SettingsFrame(Setting{0x99, 7}, Setting{0xff00, 0xffffffff})}}
	case 3:
		d := [8]byte{1, 3, 3, 7, 0, 0, byte(x.ntag), 9}
		return &probe{Name: "PING", Kind: "legal", Frames: []Frame{PingFrame(false, d)}, Ping: &d}
	case 4:
		return &probe{Name: "PRIORITY on an idle stream", Kind: "legal", Frames: []Frame{PriorityFrame(x.next+20, PrioParam{Dep: 0, Weight: 3})}}
	case 5:
		return &probe{Name: "PRIORITY on a closed stream", Kind: "legal", Frames: []Frame{PriorityFrame(x.reset, PrioParam{Dep: x.half, Exclusive: true, Weight: 200})}}
	case 6:
		return &probe{Name: "WINDOW_UPDATE on a stream the client has reset", Kind: "legal", Frames: []Frame{WindowUpdateFrame(x.reset, 10)}}
	case 7:
		return &probe{Name: "RST_STREAM on an already reset stream", Kind: "legal", Frames: []Frame{RSTFrame(x.reset, ErrCancel)}}
	case 8:
		return &probe{Name: "WINDOW_UPDATE on half-closed (remote) stream", Kind: "legal", Frames: []Frame{WindowUpdateFrame(x.half, 1000)}}
	case 9:
		return &probe{Name: "empty DATA and padded DATA on an open stream", Kind: "legal", Frames: []Frame{DataFrame(x.open, nil, false, -1), DataFrame(x.open, []byte("abc"), false, 7)}}
	case 10:
		return &probe{Name: "SETTINGS ACK", Kind: "legal", Frames: []Frame{SettingsAck()}}
	case 11:
		id := x.newID()
		tag := x.tag()
		if x.big && (x.forceTSU || drawBool(t, "tablesizeupdate", 60)) {
			// the block opens with a dynamic table size update to what the server advertised
			// (8192 > the protocol default of 4096): legal once its SETTINGS has been received
			if x.hold {
				x.resp[tag] = &RespPlan{Status: 200, Body: []byte("ok:" + tag), Park: true}
			}
			block := append([]byte{0x3f, 0xe1, 0x3f}, x.enc.Block(x.fields(tag, "GET"))...)
			return &probe{Name: "new request whose header block opens with a table size update to the advertised 8192", Kind: "legal", Frames: HeadersFrames(id, block, true, nil, -1, nil), GoodTag: tag}
		}
		return &probe{Name: "new request with END_STREAM", Kind: "legal", Frames: x.request(id, tag, "GET", true, x.hold), GoodTag: tag}
	case 12:
		// request with a body and trailers
		id := x.newID()
		tag := x.tag()
		if drawBool(t, "paddedcl", 30) {
			// a declared content-length delivered in PADDED DATA frames: padding (and the
			// pad-length octet) is not content, the frames add up to exactly the declared length
			body := []byte("body-of-" + tag)
			cut := rapid.IntRange(0, len(body)).Draw(t, "paddedclcut")
			fs := HeadersFrames(id, x.enc.Block(x.fields(tag, "POST", [2]string{"content-length", fmt.Sprint(len(body))})), false, nil, -1, nil)
			fs = append(fs, DataFrame(id, body[:cut], false, rapid.IntRange(0, 40).Draw(t, "paddedclp1")))
			if drawBool(t, "paddedclempty", 40) {
				fs = append(fs, DataFrame(id, body[cut:], false, 0), DataFrame(id, nil, true, rapid.IntRange(0, 9).Draw(t, "paddedclp3")))
			} else {
				fs = append(fs, DataFrame(id, body[cut:], true, rapid.IntRange(0, 40).Draw(t, "paddedclp2")))
			}
			if x.hold {
				x.resp[tag] = &RespPlan{Status: 200, Body: []byte("ok:" + tag), Park: true}
			}
			return &probe{Name: "request with content-length whose body arrives in padded DATA frames", Kind: "legal", Frames: fs, GoodTag: tag}
		}
		fs := HeadersFrames(id, x.enc.Block(x.fields(tag, "POST", [2]string{"trailer", "x-t"})), false, nil, -1, nil)
		fs = append(fs, DataFrame(id, []byte("body-of-"+tag), false, -1))
		name := "request with body and trailers"
		if drawBool(t, "emptytrailers", 35) {
			// an empty trailer section: a HEADERS frame with an empty header block ends the stream
			name = "request with body and an empty trailer section"
			fs = append(fs, HeadersFrames(id, nil, true, nil, -1, nil)...)
		} else {
			fs = append(fs, HeadersFrames(id, x.enc.Block([][2]string{{"x-t", "1"}}), true, nil, -1, nil)...)
		}
		if x.hold {
			x.resp[tag] = &RespPlan{Status: 200, Body: []byte("ok:" + tag), Park: true}
		}
		return &probe{Name: name, Kind: "legal", Frames: fs, GoodTag: tag}
	case 13:
		id := x.newID()
		tag := x.tag()
		block := x.enc.Block(x.fields(tag, "GET", [2]string{"x-pad", strings.Repeat("p", 50)}))
		if x.hold {
			x.resp[tag] = &RespPlan{Status: 200, Body: []byte("ok:" + tag), Park: true}
		}
		return &probe{Name: "request split over CONTINUATION with padding and priority", Kind: "legal", Frames: HeadersFrames(id, block, true, &PrioParam{Dep: 0, Weight: 9}, 13, []int{3, 17}), GoodTag: tag}
	// ------------------------------------------------ stream errors
	case 14:
		return &probe{Name: "HEADERS on half-closed (remote) stream", Kind: "stream", Stream: x.half, Codes: cSC, OrConn: cSC,
			Frames: HeadersFrames(x.half, x.enc.Block([][2]string{{"x-late", "1"}}), true, nil, -1, nil)}
	case 15:
		return &probe{Name: "DATA on half-closed (remote) stream", Kind: "stream", Stream: x.half, Codes: cSC, OrConn: cSC, Frames: []Frame{DataFrame(x.half, []byte("late"), false, -1)}}
	case 16:
		return &probe{Name: "DATA on a stream the client has reset", Kind: "stream", Stream: x.reset, Codes: cSC, OrConn: cSC, Frames: []Frame{DataFrame(x.reset, []byte("late"), true, -1)}}
	case 17:
		inc := []uint32{0, 0x80000000}[rapid.IntRange(0, 1).Draw(t, "wu0reserved")] // the reserved bit is not part of the increment
		return &probe{Name: fmt.Sprintf("WINDOW_UPDATE increment 0 (word %#x) on a stream", inc), Kind: "stream", Stream: x.open, Codes: cP, Frames: []Frame{WindowUpdateFrame(x.open, inc)}}
	case 18:
		return &probe{Name: "WINDOW_UPDATE overflowing a stream window", Kind: "stream", Stream: x.half, Codes: cFC, Frames: []Frame{WindowUpdateFrame(x.half, 0x7fffffff)}}
	case 19:
		if !x.graceful && drawBool(t, "selfdepidle", 50) {
			// ... on an idle stream well above every stream in use: a stream error for that id,
			// which uses up no stream identifier - requests on the ids below it stay legal
			// (the draw loop sends one right behind)
			idle := x.next + 60
			return &probe{Name: "PRIORITY depending on itself, on an idle stream", Kind: "stream", Stream: idle, Codes: cP, Frames: []Frame{PriorityFrame(idle, PrioParam{Dep: idle, Weight: 1})}}
		}
		return &probe{Name: "PRIORITY depending on itself", Kind: "stream", Stream: x.half, Codes: cP, Frames: []Frame{PriorityFrame(x.half, PrioParam{Dep: x.half, Weight: 1})}}
	case 20:
		return &probe{Name: "PRIORITY with length 4", Kind: "stream", Stream: x.half, Codes: cFS, OrConn: cFS, Frames: []Frame{{Type: FPriority, Stream: x.half, Payload: []byte{0, 0, 0, 1}}}}
	case 21:
		id := x.newID()
		tag := x.tag()
		return &probe{Name: "HEADERS whose priority depends on its own stream", Kind: "stream", Stream: id, Codes: cP, BadTag: tag,
			Frames: HeadersFrames(id, x.enc.Block(x.fields(tag, "GET")), true, &PrioParam{Dep: id, Weight: 5}, -1, nil)}
	case 22, 23, 24, 25, 26, 27, 28, 29:
		// malformed requests (RFC 7540 8.1.2): stream error PROTOCOL_ERROR (or a local 400)
		id := x.newID()
		tag := x.tag()
		var f [][2]string
		name := ""
		switch k {
		case 22:
			name = "upper-case header field name"
			f = append(x.fields(tag, "GET"), [2]string{"X-Upper", "1"})
		case 23:
			name = "connection-specific header field"
			f = append(x.fields(tag, "GET"), [2]string{"connection", "keep-alive"})
		case 24:
			name = "missing :method"
			f = [][2]string{{":scheme", "https"}, {":authority", "sm.verif.test"}, {":path", "/" + tag}, {"x-tag", tag}}
		case 25:
			name = "missing :path"
			f = [][2]string{{":method", "GET"}, {":scheme", "https"}, {":authority", "sm.verif.test"}, {"x-tag", tag}}
		case 26:
			name = "duplicate :method"
			f = append([][2]string{{":method", "POST"}}, x.fields(tag, "GET")...)
		case 27:
			name = "pseudo-header after a regular field"
			f = [][2]string{{":method", "GET"}, {":scheme", "https"}, {"x-tag", tag}, {":path", "/" + tag}, {":authority", "sm.verif.test"}}
		case 28:
			name = "unknown pseudo-header"
			f = append(x.fields(tag, "GET"), [2]string{":foo", "bar"})
			f[len(f)-1], f[len(f)-2] = f[len(f)-2], f[len(f)-1]
		case 29:
			name = "te header other than trailers"
			f = append(x.fields(tag, "GET"), [2]string{"te", "gzip"})
		}
		return &probe{Name: "malformed request: " + name, Kind: "stream", Stream: id, Codes: cP, OrLocal: true, BadTag: tag,
			Frames: HeadersFrames(id, x.enc.Block(f), true, nil, -1, nil)}
	case 30:
		// content-length that does not match the DATA received
		id := x.newID()
		tag := x.tag()
		fs := HeadersFrames(id, x.enc.Block(append(x.fields(tag, "POST"), [2]string{"content-length", "3"})), false, nil, -1, nil)
		fs = append(fs, DataFrame(id, []byte("12345678"), true, -1))
		return &probe{Name: "DATA exceeding the declared content-length", Kind: "stream", Stream: id, Codes: cP, Frames: fs}
	case 31:
		// second header block on an open stream without END_STREAM (trailers must end the stream)
		return &probe{Name: "second HEADERS without END_STREAM on an open stream", Kind: "stream", Stream: x.open, Codes: cP, OrConn: cP,
			Frames: HeadersFrames(x.open, x.enc.Block([][2]string{{"x-t", "1"}}), false, nil, -1, nil)}
	// ------------------------------------------------ connection errors (end the session)
	case 32:
		return &probe{Name: "HEADERS on an even stream id", Kind: "conn", Codes: cP, Frames: HeadersFrames(x.next+1, x.enc.Block(x.fields("even", "GET")), true, nil, -1, nil), BadTag: "even"}
	case 33:
		return &probe{Name: "HEADERS on a stream the client has reset (lower than the highest id)", Kind: "conn", Codes: []uint32{ErrProtocol, ErrStreamClosed}, BadTag: "reopen",
			Frames: HeadersFrames(x.reset, x.enc.Block(x.fields("reopen", "GET")), true, nil, -1, nil)}
	case 34:
		return &probe{Name: "DATA on an idle stream", Kind: "conn", Codes: cP, Frames: []Frame{DataFrame(x.next+40, []byte("x"), false, -1)}}
	case 35:
		return &probe{Name: "RST_STREAM on an idle stream", Kind: "conn", Codes: cP, Frames: []Frame{RSTFrame(x.next+40, ErrCancel)}}
	case 36:
		return &probe{Name: "WINDOW_UPDATE on an idle stream", Kind: "conn", Codes: cP, Frames: []Frame{WindowUpdateFrame(x.next+40, 5)}}
	case 37:
		fr := []Frame{
			{Type: FData, Stream: 0, Payload: []byte("x")},
			{Type: FHeaders, Stream: 0, Flags: FlagEndHeaders, Payload: x.enc.Block(x.fields("zero", "GET"))},
			{Type: FRSTStream, Stream: 0, Payload: u32(ErrCancel)},
			{Type: FPriority, Stream: 0, Payload: []byte{0, 0, 0, 1, 1}},
			{Type: FContinuation, Stream: 0, Flags: FlagEndHeaders},
		}[rapid.IntRange(0, 4).Draw(t, "zerokind")]
		return &probe{Name: "stream-0 " + fr.String(), Kind: "conn", Codes: cP, Frames: []Frame{fr}}
	case 38:
		fr := []Frame{
			{Type: FSettings, Stream: x.half, Payload: nil},
			{Type: FPing, Stream: x.half, Payload: make([]byte, 8)},
			{Type: FGoAway, Stream: x.half, Payload: make([]byte, 8)},
		}[rapid.IntRange(0, 2).Draw(t, "nonzerokind")]
		return &probe{Name: "connection-level frame on a stream: " + fr.String(), Kind: "conn", Codes: cP, Frames: []Frame{fr}}
	case 39:
		fr := []Frame{
			{Type: FSettings, Flags: FlagAck, Payload: make([]byte, 6)},
			{Type: FSettings, Payload: make([]byte, 5)},
			{Type: FPing, Payload: make([]byte, 7)},
			{Type: FWindowUpdate, Payload: make([]byte, 3)},
			{Type: FRSTStream, Stream: x.half, Payload: make([]byte, 5)},
			{Type: FGoAway, Payload: make([]byte, 7)},
		}[rapid.IntRange(0, 5).Draw(t, "sizekind")]
		return &probe{Name: "wrong frame length: " + fr.String(), Kind: "conn", Codes: cFS, Frames: []Frame{fr}}
	case 40:
		s := []struct {
			s Setting
			c []uint32
		}{{Setting{2, 2}, cP}, {Setting{4, 1 << 31}, cFC}, {Setting{5, 100}, cP}, {Setting{5, 1 << 24}, cP}}[rapid.IntRange(0, 3).Draw(t, "setbad")]
		return &probe{Name: fmt.Sprintf("SETTINGS value out of range %v", s.s), Kind: "conn", Codes: s.c, Frames: []Frame{SettingsFrame(s.s)}}
	case 41:
		return &probe{Name: "PUSH_PROMISE from the client", Kind: "conn", Codes: cP,
			Frames: []Frame{{Type: FPushPromise, Stream: x.half, Flags: FlagEndHeaders, Payload: append(u32(2), x.enc.Block(x.fields("push", "GET"))...)}}}
	case 42:
		return &probe{Name: "CONTINUATION without a preceding HEADERS", Kind: "conn", Codes: cP, Frames: []Frame{{Type: FContinuation, Stream: x.half, Flags: FlagEndHeaders, Payload: []byte{0x82}}}}
	case 43:
		id := x.newID()
		fs := HeadersFrames(id, x.enc.Block(x.fields("interleaved", "GET", [2]string{"x-fill", strings.Repeat("f", 40)})), true, nil, -1, []int{5})
		other := []Frame{PingFrame(false, [8]byte{}), WindowUpdateFrame(0, 1), DataFrame(x.open, []byte("x"), false, -1), {Type: 0xee}}[rapid.IntRange(0, 3).Draw(t, "between")]
		return &probe{Name: "frame between HEADERS and CONTINUATION: " + other.String(), Kind: "conn", Codes: cP, Frames: []Frame{fs[0], other, fs[1]}, BadTag: "interleaved"}
	case 44:
		id := x.newID()
		return &probe{Name: "undecodable header block", Kind: "conn", Codes: []uint32{ErrCompression},
			Frames: []Frame{{Type: FHeaders, Stream: id, Flags: FlagEndHeaders | FlagEndStream, Payload: []byte{0xff, 0xff, 0xff, 0xff, 0xff, 0xff, 0xff, 0xff, 0xff, 0xff, 0x7f}}}}
	case 45:
		// the fork advertises SETTINGS_MAX_FRAME_SIZE = 1 MiB (checked at run time)
		return &probe{Name: "frame larger than the advertised SETTINGS_MAX_FRAME_SIZE", Kind: "conn", Codes: cFS,
			Frames: []Frame{{Type: 0xee, Stream: 0, Payload: make([]byte, 1<<20+1)}}}
	case 46, 47, 48:
		// the server never pushes: every even id stays idle for ever, also below the highest client stream
		even := x.half + 1
		fr := []Frame{DataFrame(even, []byte("x"), false, -1), RSTFrame(even, ErrCancel), WindowUpdateFrame(even, 5)}[k-46]
		return &probe{Name: "frame on an idle even stream below the highest client stream: " + fr.String(), Kind: "conn", Codes: cP, Frames: []Frame{fr}}
	case 49:
		// a header block that carries a malformed field AND ends in the middle of a field:
		// the block cannot be decoded to its end, the HPACK state of the connection is lost -
		// a connection error (COMPRESSION_ERROR), not just a refusal of the one request
		id := x.newID()
		f := append(x.fields("trunc", "GET"), [2]string{"X-Upper", "1"})
		block := append(x.enc.Block(f), 0x40, 0x0a, 'a', 'b')
		return &probe{Name: "header block with a malformed field that is also truncated", Kind: "conn", Codes: []uint32{ErrCompression}, BadTag: "trunc",
			Frames: []Frame{{Type: FHeaders, Stream: id, Flags: FlagEndHeaders | FlagEndStream, Payload: block}}}
	}
	panic("no such probe")
}

type c13Aux struct {
	Probes    []*probe
	Pre       []string // tags of the set-up requests that must reach a handler
	Final     string   // tag of the closing request (served iff no connection error)
	After     string   // tag sent after a connection error: never served
	HalfID    uint32
	OpenID    uint32
	ResetID   uint32
	ConnIdx   int // index of the connection-error probe or -1
	NoPreface bool
	Hold      bool
	Limit     bool // concurrency-limit scenario
	Graceful  bool // the client has sent GOAWAY(NO_ERROR) after the set-up: the server is shutting the connection down gracefully
	LimitID   uint32
}

func drawC13(t *rapid.T) *Case {
	p := &Plan{Check: "C13", Backend: BackendPlan{Resp: map[string]*RespPlan{}}, Budget: 20000}
	aux := &c13Aux{ConnIdx: -1, Hold: true}
	x := &c13Ctx{enc: NewHEnc(), ci: 0, next: 1, resp: p.Backend.Resp, hold: true}
	if drawBool(t, "bigtable", 25) {
		p.H2DecoderTableSize = 8192
		x.big = true
	}
	// no dynamic table: header blocks stay decodable whichever blocks the script ends up sending
	x.enc.enc.SetMaxDynamicTableSize(0)
	hello := fixedHello("h2")
	cp := &ClientPlan{ID: 0, Addr: "198.51.100.10:32000", Hello: hello}
	var steps []Step
	steps = append(steps, Step{Kind: "connect"})
	write := func(fs ...Frame) { steps = append(steps, Step{Kind: "write", Pieces: [][]byte{FramesBytes(fs...)}}) }

	mode := rapid.IntRange(0, 19).Draw(t, "mode")
	if v := osGetenv("VERIF_C13_MODE"); v != "" {
		fmt.Sscanf(v, "%d", &mode)
	}
	if mode == 0 {
		// the very first frame is not SETTINGS
		aux.NoPreface = true
		first := []Frame{PingFrame(false, [8]byte{}), WindowUpdateFrame(0, 5), {Type: 0xee}}[rapid.IntRange(0, 2).Draw(t, "first")]
		tag := x.tag()
		aux.After = tag
		steps = append(steps, Step{Kind: "write", Pieces: [][]byte{append([]byte(ClientPreface), FramesBytes(first)...)}})
		write(x.request(x.newID(), tag, "GET", true, false)...)
		aux.Probes = []*probe{{Name: "first frame is " + first.String() + ", not SETTINGS", Kind: "conn", Codes: cP}}
		aux.ConnIdx = 0
		steps = append(steps, Step{Kind: "readeof"}, Step{Kind: "close"})
		cp.Steps = steps
		p.Clients = []*ClientPlan{cp}
		p.Tape, p.Tail = drawTape(t, 64)
		c := &Case{Plan: p, Metas: []*ClientMeta{{Proto: "h2"}}, Oracle: oracleC13, Aux: aux}
		c.Summary = "first frame not SETTINGS: " + first.String()
		return c
	}
	steps = append(steps, Step{Kind: "write", Pieces: [][]byte{append([]byte(ClientPreface), FramesBytes(SettingsFrame(Setting{4, 1 << 20}))...)}})
	if mode == 1 && (drawBool(t, "atlimit", 50) || osGetenv("VERIF_C13_ATLIMIT") != "") {
		// at the concurrency limit: 249 parked streams and one whose answer ends in a DATA frame
		// that is written asynchronously (4090-4096 octets: it fills the handler's buffer and does
		// not fit the connection's write buffer).  The client has seen END_STREAM - the stream is
		// closed, it is one below the limit - and opens the next stream at once.  The serve fence
		// holds the serve loop back while the write is in flight, so that the write's result and
		// the new HEADERS frame can both be pending when it selects (wave 12, C13-s)
		aux.Limit = true
		p.ServeFences = true
		const adv = 250
		for i := 0; i < adv-1; i++ {
			tag := x.tag()
			aux.Pre = append(aux.Pre, tag)
			write(x.request(x.newID(), tag, "GET", true, true)...)
		}
		var last uint32
		for k, n := 0, rapid.IntRange(1, 3).Draw(t, "atlimitrounds"); k < n; k++ {
			tag := x.tag()
			id := x.newID()
			x.resp[tag] = &RespPlan{Status: 200, Body: bodyBytes(tag, rapid.IntRange(4088, 4096).Draw(t, "atlimitbody"))}
			pr := &probe{Name: fmt.Sprintf("request %d at the advertised concurrency limit, opened after END_STREAM of the stream before it", k), Kind: "legal", Frames: x.request(id, tag, "GET", true, false), GoodTag: tag}
			aux.Probes = append(aux.Probes, pr)
			write(pr.Frames...)
			steps = append(steps, Step{Kind: "h2await", Streams: []uint32{id}})
			last = id
		}
		_ = last
		write(PingFrame(false, [8]byte{0xfc, 7}))
		steps = append(steps, Step{Kind: "h2ping"}, Step{Kind: "close"})
		cp.Steps = steps
		p.Clients = []*ClientPlan{cp}
		p.Tape, p.Tail = drawTape(t, 64)
		c := &Case{Plan: p, Metas: []*ClientMeta{{Proto: "h2"}}, Oracle: oracleC13, Aux: aux}
		c.Summary = "249 parked streams and a chain of requests at the advertised limit of 250, each opened on END_STREAM of the one before (serve fence)"
		return c
	}
	if mode == 1 {
		// concurrency limit: open as many parked streams as the server advertises, then one more
		aux.Limit = true
		const adv = 250
		for i := 0; i < adv; i++ {
			tag := x.tag()
			aux.Pre = append(aux.Pre, tag)
			write(x.request(x.newID(), tag, "GET", true, true)...)
		}
		tag := x.tag()
		aux.LimitID = x.newID()
		write(x.request(aux.LimitID, tag, "GET", true, false)...)
		aux.Probes = []*probe{{Name: "HEADERS beyond the advertised concurrency limit", Kind: "stream", Stream: aux.LimitID, Codes: []uint32{ErrProtocol, ErrRefusedStream}, BadTag: tag}}
		steps = append(steps, Step{Kind: "h2await", Streams: []uint32{aux.LimitID}})
		// the refused stream is closed, not idle: further frames on it are not a connection error ...
		follow := []Frame{DataFrame(aux.LimitID, []byte("late"), true, -1), RSTFrame(aux.LimitID, ErrCancel), WindowUpdateFrame(aux.LimitID, 9), PriorityFrame(aux.LimitID, PrioParam{Weight: 1})}[rapid.IntRange(0, 3).Draw(t, "follow")]
		write(follow, PingFrame(false, [8]byte{0xfc, 1}))
		steps = append(steps, Step{Kind: "h2ping"})
		aux.Probes = append(aux.Probes, &probe{Name: "frame on the refused (closed) stream: " + follow.String(), Kind: "legal_or_stream", Stream: aux.LimitID})
		if drawBool(t, "reuse", 50) {
			// ... and its id cannot be used again
			tag2 := x.tag()
			aux.ConnIdx = len(aux.Probes)
			aux.Probes = append(aux.Probes, &probe{Name: "second HEADERS on the id of the refused stream", Kind: "conn", Codes: []uint32{ErrProtocol, ErrStreamClosed}, BadTag: tag2,
				Frames: HeadersFrames(aux.LimitID, x.enc.Block(x.fields(tag2, "GET")), true, nil, -1, nil)})
			write(aux.Probes[aux.ConnIdx].Frames...)
			steps = append(steps, Step{Kind: "readeof"})
		}
		steps = append(steps, Step{Kind: "close"})
		cp.Steps = steps
		p.Clients = []*ClientPlan{cp}
		p.Tape, p.Tail = drawTape(t, 16)
		c := &Case{Plan: p, Metas: []*ClientMeta{{Proto: "h2"}}, Oracle: oracleC13, Aux: aux}
		c.Summary = "251 concurrent streams against an advertised limit of 250"
		return c
	}
	// set-up: one stream in each state
	x.half = x.newID()
	tagHalf := x.tag()
	write(x.request(x.half, tagHalf, "GET", true, true)...)
	x.open = x.newID()
	tagOpen := x.tag()
	fs := x.request(x.open, tagOpen, "POST", false, false)
	fs = append(fs, DataFrame(x.open, []byte("partial-body"), false, -1))
	write(fs...)
	x.reset = x.newID()
	tagReset := x.tag()
	rs := x.request(x.reset, tagReset, "GET", true, true)
	rs = append(rs, RSTFrame(x.reset, ErrCancel))
	write(rs...)
	aux.Pre = []string{tagHalf, tagOpen}
	aux.HalfID, aux.OpenID, aux.ResetID = x.half, x.open, x.reset
	if drawBool(t, "idlelong", 15) {
		// a short idle timeout, and a pause longer than it while two streams are open and a third
		// has just been closed: the connection is not idle, what follows is served as usual
		// (wave 12, C13-t: the idle timer re-armed at every stream's end)
		p.Args = append(p.Args, "-timeout-http-idle", "2s")
		steps = append(steps, Step{Kind: "sleep", DelayMS: rapid.IntRange(2100, 9000).Draw(t, "idlelongms")})
	}

	// graceful shutdown: the client announces that it will open no more streams; the server
	// answers with its own GOAWAY(NO_ERROR) and goes on serving the streams that exist.  Frames
	// on higher stream ids may be discarded from here on (RFC 7540 6.8), so the probes that
	// follow stay on existing streams and on stream 0.
	graceful := drawBool(t, "graceful", 15)
	gracefulKinds := []int{0, 1, 2, 3, 5, 6, 7, 8, 9, 17, 18, 19} // (the stream-level ones among them are never answered with a connection error)
	gracefulConnKinds := []int{33, 37, 38, 39, 40, 41, 42, 45, 46, 47, 48}
	if graceful {
		aux.Graceful = true
		write(Frame{Type: FGoAway, Payload: make([]byte, 8)}, PingFrame(false, [8]byte{0xfc, 2}))
		steps = append(steps, Step{Kind: "h2ping", Streams: []uint32{2}})
	}
	// probes
	n := rapid.IntRange(1, 4).Draw(t, "nprobes")
	x.graceful = graceful
	usedHalf, usedOpen, usedAck := false, false, false
	for i := 0; i < n; i++ {
		k := rapid.IntRange(0, 31).Draw(t, "probe")
		if graceful {
			k = gracefulKinds[k%len(gracefulKinds)]
		}
		if k == 10 {
			// the server has sent exactly one SETTINGS frame: only one ACK is due
			if usedAck {
				continue
			}
			usedAck = true
		}
		pr := buildProbe(t, x, k)
		// a stream can be reset by the server only once: do not reuse a reset stream for further probes
		if pr.Kind == "stream" && pr.Stream == x.half {
			if usedHalf {
				continue
			}
			usedHalf = true
		}
		if pr.Kind == "stream" && pr.Stream == x.open {
			if usedOpen {
				continue
			}
			usedOpen = true
		}
		if (usedHalf && probeTouches(pr, x.half) && pr.Kind != "stream") || (usedOpen && probeTouches(pr, x.open) && pr.Kind != "stream") {
			continue // a legal probe on a stream the server has meanwhile reset would be judged against a stale state
		}
		aux.Probes = append(aux.Probes, pr)
		write(pr.Frames...)
		if k == 19 && !graceful && pr.Stream != x.half {
			pr2 := buildProbe(t, x, 11)
			aux.Probes = append(aux.Probes, pr2)
			write(pr2.Frames...)
		}
		if x.big && !graceful && k >= 22 && k <= 29 && drawBool(t, "tsuaftermalformed", 70) {
			// right behind a request refused for a malformed field: a well-formed request whose
			// block opens with a table size update - the decoder must be back at "start of a
			// block" (the refused block was closed properly)
			x.forceTSU = true
			pr2 := buildProbe(t, x, 11)
			x.forceTSU = false
			aux.Probes = append(aux.Probes, pr2)
			write(pr2.Frames...)
		}
	}
	if drawBool(t, "connprobe", 50) && !(usedHalf || usedOpen) || drawBool(t, "connprobe2", 20) {
		k := rapid.IntRange(32, nProbeKinds-1).Draw(t, "cprobe")
		if (usedHalf && (k == 38 || k == 39 || k == 41 || k == 42)) || (usedOpen && (k == 43 || k == 45)) {
			k = 34
		}
		if graceful {
			k = gracefulConnKinds[k%len(gracefulConnKinds)]
			if usedHalf && (k == 38 || k == 39 || k == 41 || k == 42) {
				k = 37
			}
		}
		pr := buildProbe(t, x, k)
		aux.ConnIdx = len(aux.Probes)
		aux.Probes = append(aux.Probes, pr)
		write(pr.Frames...)
		// a request after the connection error must not be served
		aux.After = x.tag()
		write(HeadersFrames(x.next+100, x.enc.Block(x.fields(aux.After, "GET")), true, nil, -1, nil)...)
		steps = append(steps, Step{Kind: "readeof"})
	} else {
		if !graceful {
			// (after the client's GOAWAY a new stream may be discarded)
			aux.Final = x.tag()
			id := x.newID()
			write(x.request(id, aux.Final, "GET", true, false)...)
			steps = append(steps, Step{Kind: "h2await", Streams: []uint32{id}})
		}
		if graceful {
			// everything the server has to say about the probes is out once this PING is acknowledged
			write(PingFrame(false, [8]byte{0xfc, 3}))
			steps = append(steps, Step{Kind: "h2ping", Streams: []uint32{3}})
		}
		if !usedOpen {
			// finish the open stream's body: it must still be accepted
			steps = append(steps, Step{Kind: "write", Pieces: [][]byte{FramesBytes(DataFrame(x.open, []byte("-rest"), true, -1))}})
		}
	}
	steps = append(steps, Step{Kind: "close"})
	cp.Steps = steps
	p.Clients = []*ClientPlan{cp}
	p.Fences = drawBool(t, "fences", 30)
	p.Tape, p.Tail = drawTape(t, 96)
	c := &Case{Plan: p, Metas: []*ClientMeta{{Proto: "h2"}}, Oracle: oracleC13, Aux: aux}
	var names []string
	for _, pr := range aux.Probes {
		names = append(names, fmt.Sprintf("[%s] %s", pr.Kind, pr.Name))
	}
	c.Summary = fmt.Sprintf("streams: half-closed=%d open=%d client-reset=%d; client GOAWAY(NO_ERROR) after the set-up=%v; probes: %s; final=%q after=%q", x.half, x.open, x.reset, graceful, strings.Join(names, " | "), aux.Final, aux.After)
	c.Nontrivial = func(w *World, c *Case) bool { return w.Clients[0].HandshakeOK && len(w.Clients[0].Recv) > 0 }
	return c
}

func probeTouches(pr *probe, id uint32) bool {
	for _, f := range pr.Frames {
		if f.Stream&0x7fffffff == id {
			return true
		}
		if f.Type == FPriority && len(f.Payload) >= 4 && binary.BigEndian.Uint32(f.Payload)&0x7fffffff == id {
			return true
		}
	}
	return false
}

func inCodes(c uint32, cs []uint32) bool {
	for _, x := range cs {
		if x == c {
			return true
		}
	}
	return false
}

func oracleC13(w *World, c *Case) {
	aux := c.Aux.(*c13Aux)
	cl := w.Clients[0]
	if !cl.HandshakeOK {
		return
	}
	w.SettleTime(3)
	by := w.ReqsByTag()
	// what the server sent
	rst := map[uint32][]uint32{}
	var goaways []Frame
	pingAcks := map[[8]byte]bool{}
	w.mu.Lock()
	for _, rf := range cl.Recv {
		f := rf.F
		switch f.Type {
		case FRSTStream:
			if len(f.Payload) == 4 {
				rst[f.Stream&0x7fffffff] = append(rst[f.Stream&0x7fffffff], binary.BigEndian.Uint32(f.Payload))
			}
		case FGoAway:
			goaways = append(goaways, f)
		case FPing:
			if f.Flags&FlagAck != 0 && len(f.Payload) == 8 {
				var d [8]byte
				copy(d[:], f.Payload)
				pingAcks[d] = true
			}
		}
	}
	streams := map[uint32]*H2Stream{}
	for id, s := range cl.Streams {
		streams[id] = s
	}
	w.mu.Unlock()
	var connErr *Frame
	for i := range goaways {
		if len(goaways[i].Payload) >= 8 && binary.BigEndian.Uint32(goaways[i].Payload[4:]) != ErrNo {
			connErr = &goaways[i]
			break
		}
	}
	connCode := uint32(0)
	if connErr != nil {
		connCode = binary.BigEndian.Uint32(connErr.Payload[4:])
	}
	desc := c.Summary
	expectConn := aux.ConnIdx >= 0
	// graceful shutdown + connection-level violation: the error GOAWAY cannot be sent any more
	// (one GOAWAY is out); the connection is torn down instead, with the same consequences for
	// what was queued behind it
	gracefulDown := aux.Graceful && expectConn && connErr == nil && cl.ReadEnded
	connExplained := false
	probeStreams := map[uint32]bool{}
	for _, pr := range aux.Probes {
		if pr.Kind == "stream" {
			probeStreams[pr.Stream] = true
		}
	}
	for i, pr := range aux.Probes {
		if connExplained {
			break // an earlier probe ended the connection: later frames were never processed
		}
		switch pr.Kind {
		case "stream":
			codes := rst[pr.Stream]
			switch {
			case len(codes) > 0 && inCodes(codes[0], pr.Codes):
				w.Probe("stream_error_answered")
			case len(codes) > 0:
				w.Violate("wrong_stream_error_code", "wrong_stream_error_code", "probe %q: RST_STREAM(%d) code %d, RFC admits %v | %s", pr.Name, pr.Stream, codes[0], pr.Codes, desc)
			case connErr != nil && inCodes(connCode, pr.OrConn):
				connExplained = true
				w.Probe("stream_error_answered_as_connection_error")
			case pr.OrLocal && streams[pr.Stream] != nil && strings.HasPrefix(streams[pr.Stream].Status, "4"):
				w.Probe("malformed_request_answered_locally")
			case gracefulDown, connErr != nil && (expectConn || laterExplains(aux.Probes, i, connCode)):
				// overtaken by a connection error caused by a later frame of the script:
				// a queued RST_STREAM may be dropped when the connection is torn down
			default:
				w.Violate("illegal_frame_not_answered", "illegal_frame_not_answered", "probe %q on stream %d drew neither RST_STREAM %v nor an admissible connection error (RSTs seen: %v, GOAWAY code %d) | %s", pr.Name, pr.Stream, pr.Codes, rst, connCode, desc)
			}
		case "conn":
			if i != aux.ConnIdx {
				continue
			}
			if gracefulDown {
				// the server's GOAWAY(NO_ERROR) was out already; it has torn the connection down
				// although a request was still in flight (its handler is parked): that is how a
				// connection error shows after a GOAWAY
				w.Probe("connection_error_after_graceful_goaway_closed_the_connection")
			} else if connErr == nil {
				w.Violate("connection_error_missing", "connection_error_missing", "probe %q drew no GOAWAY with an error code (admissible %v); frames received: %d | %s", pr.Name, pr.Codes, len(cl.Recv), desc)
			} else if !inCodes(connCode, pr.Codes) && !connExplained {
				w.Violate("wrong_connection_error_code", "wrong_connection_error_code", "probe %q: GOAWAY code %d, RFC admits %v | %s", pr.Name, connCode, pr.Codes, desc)
			} else {
				w.Probe("connection_error_answered")
			}
		case "legal_or_stream":
			// a frame on a closed stream: ignoring it or a stream error are both fine,
			// a connection error is not (judged below: no conn probe => no GOAWAY error)
		case "legal":
			if pr.Ping != nil && !pingAcks[*pr.Ping] && connErr == nil && !gracefulDown {
				w.Violate("ping_not_acked", "ping_not_acked", "PING %x was not acknowledged with the same payload | %s", *pr.Ping, desc)
			}
		}
		if pr.BadTag != "" && len(by[pr.BadTag]) > 0 {
			w.Violate("handler_for_illegal_frame", "handler_for_illegal_frame", "probe %q: request %s reached a handler | %s", pr.Name, pr.BadTag, desc)
		}
		if pr.GoodTag != "" && len(by[pr.GoodTag]) == 0 && connErr == nil && !gracefulDown {
			w.Violate("legal_request_not_served", "legal_request_not_served", "probe %q: well-formed request %s never reached a handler | %s", pr.Name, pr.GoodTag, desc)
		}
	}
	// legal traffic never draws an error
	if connErr != nil && !expectConn && !connExplained {
		w.Violate("legal_sequence_drew_connection_error", "legal_sequence_drew_connection_error", "GOAWAY code %d although no connection-level violation was sent | %s", connCode, desc)
	}
	for id, codes := range rst {
		if probeStreams[id] || id == aux.ResetID {
			continue
		}
		if connErr != nil {
			continue
		}
		w.Violate("legal_sequence_drew_stream_error", "legal_sequence_drew_stream_error", "RST_STREAM(%d) codes %v on a stream that received only legal frames | %s", id, codes, desc)
	}
	tagStream := c13TagStreams(aux, c)
	for _, tag := range aux.Pre {
		// a request whose stream was reset afterwards (probe, connection error) may have
		// been cancelled on its way to the back-end; it only must have been served otherwise
		if probeStreams[tagStream[tag]] || connErr != nil || gracefulDown {
			continue
		}
		if len(by[tag]) == 0 {
			w.Violate("legal_request_not_served", "legal_request_not_served", "set-up request %s never reached a handler | %s", tag, desc)
		}
	}
	if aux.Final != "" && connErr == nil {
		if len(by[aux.Final]) == 0 {
			w.Violate("legal_request_not_served", "legal_request_not_served", "the closing request %s was not served although no connection error occurred | %s", aux.Final, desc)
		}
	}
	// after a connection error nothing more is served; GOAWAY covers what was acted on
	if aux.After != "" && len(by[aux.After]) > 0 && (connErr != nil || gracefulDown) {
		w.Violate("served_after_connection_error", "served_after_connection_error", "request %s sent after the connection error reached a handler | %s", aux.After, desc)
	}
	if connErr != nil {
		last := binary.BigEndian.Uint32(connErr.Payload) & 0x7fffffff
		for _, br := range w.BackReqs {
			// stream id of a tag: set-up and probe requests use ids in order of creation
			for id, s := range streams {
				_ = s
				_ = id
			}
			_ = br
		}
		maxActed := uint32(0)
		for tag, id := range c13TagStreams(aux, c) {
			if len(by[tag]) > 0 && id > maxActed {
				maxActed = id
			}
		}
		if last < maxActed {
			w.Violate("goaway_last_stream_id", "goaway_last_stream_id", "GOAWAY last-stream-id %d is lower than stream %d, whose request reached a handler | %s", last, maxActed, desc)
		}
		if !cl.ReadEnded {
			w.Probe("connection_still_open_after_goaway")
		}
	}
	if aux.Limit {
		w.Probe("concurrency_limit_scenario")
	}
}

// c13TagStreams maps request tags to stream ids by re-reading the frames of the plan.
func c13TagStreams(aux *c13Aux, c *Case) map[string]uint32 {
	out := map[string]uint32{}
	// tags are embedded in :path as "/<tag>"; ids are found by decoding is overkill:
	// the set-up requests are known, probes carry their stream in Frames[0]
	if len(aux.Pre) >= 2 && !aux.Limit {
		out[aux.Pre[0]] = aux.HalfID
		out[aux.Pre[1]] = aux.OpenID
	}
	for _, pr := range aux.Probes {
		if pr.GoodTag != "" && len(pr.Frames) > 0 {
			out[pr.GoodTag] = pr.Frames[0].Stream & 0x7fffffff
		}
	}
	return out
}

func init() {
	register(&CheckDef{ID: "C13", Level: "exploration", Engine: "A", Draw: drawC13,
		Rule: "a raw-frame HTTP/2 client first puts one stream into each state (half-closed (remote) with the handler parked in the back-end, open with a partial body, closed by a client RST_STREAM; idle ids above; 2.5%: 249 parked streams against the advertised limit of 250 and a chain of 1-3 requests whose answers end in an asynchronously written DATA frame, each opened on END_STREAM of the one before, with the serve loop held back by the controller while the write is in flight (serve fence); 15%: -timeout-http-idle 2s and a pause of 2.1-9 s right after this set-up, the connection not being idle), so that the server-side state is determined by the client's frames alone, then sends 1-4 probes drawn from a catalogue of 47 (state, frame) situations - 14 legal ones that must never draw an error (unknown frame types and settings, PING, PRIORITY / WINDOW_UPDATE / RST_STREAM on closed streams, padded and empty DATA, trailers, CONTINUATION with padding and priority), 18 stream-level violations (frames on half-closed / reset streams, zero and overflowing WINDOW_UPDATE, self-dependency, malformed requests of 9 kinds, content-length mismatch, ...), 15 connection-level violations (even / reused ids, a header block both malformed and truncated, frames on idle streams, stream-0 / non-0 association, wrong lengths, out-of-range SETTINGS, PUSH_PROMISE, broken CONTINUATION sequences, undecodable header block, oversized frame), plus two special scenarios (first frame not SETTINGS; 251 parked streams against the advertised limit of 250) and, in 15% of the runs, a client GOAWAY(NO_ERROR) after the set-up, so that the probes meet a connection in graceful shutdown (a connection error then shows as an error GOAWAY or as the connection torn down under the parked request); then a closing request (must be served) or a request after the connection error (must not be). Frame delivery order relative to handlers is the controller's. Oracle (refh2sm, from RFC 7540/9113): reaction in the admissible set; handler started iff required; GOAWAY last-stream-id covers every request acted on; legal traffic draws no error. Non-trivial: the server answered at least one frame. Distinct: distinct controller action-label sequences."})
}

func laterExplains(ps []*probe, i int, connCode uint32) bool {
	for j := i + 1; j < len(ps); j++ {
		if ps[j].Kind == "stream" && inCodes(connCode, ps[j].OrConn) {
			return true
		}
	}
	return false
}

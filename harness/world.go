package harness

// world: the proxy (real code, built from CLI arguments through the injected
// accessor), a recording back-end (real net/http server on a simulated
// listener), scripted clients, and the controller that takes every decision.

import (
	"bytes"
	"context"
	"crypto/sha256"
	"crypto/tls"
	"encoding/hex"
	"fmt"
	"hash"
	"io"
	"log"
	"net"
	"net/http"
	"os"
	"runtime"
	"slices"
	"sort"
	"strconv"
	"strings"
	"sync"
	"testing/synctest"
	"time"

	utls "github.com/refraction-networking/utls"
	fingerproxy "github.com/wi1dcard/fingerproxy"
	"github.com/wi1dcard/fingerproxy/pkg/http2"
	"github.com/wi1dcard/fingerproxy/pkg/metadata"
	"github.com/wi1dcard/fingerproxy/pkg/proxyserver"
	"github.com/wi1dcard/fingerproxy/pkg/reverseproxy"
)

const (
	frontAddr   = "10.0.0.1:443"
	backendAddr = "10.0.0.2:8080"
	proxyOut    = "10.0.0.1:40000"
)

type Plan struct {
	Check         string
	Args          []string // proxy CLI arguments (without -forward-url)
	ForwardPrefix string   // path prefix of the -forward-url ("" or "/base": no trailing slash)
	Clients       []*ClientPlan
	Backend       BackendPlan
	Tape          []uint16
	Tail          uint64 // seeds the PRNG used after the tape
	Budget        int    // max controller decisions before the drain phase
	Faults        FaultPlan

	BackendKeepAlive   bool
	ExtraInjectors     []ExtraInjector
	ExtraInjectorsLate bool // append them to HTTPHandler.HeaderInjectors after construction instead of passing them to the constructor
	Burst              bool // offer "burst": every pending delivery and client step in ONE controller step (race workers: goroutines of different connections then run unordered by the controller)
	YieldInjector      bool // park every handler at an injector placed first
	ParkInjector       bool // park every handler at an injector placed first until the drain phase
	CancelAtStep       int  // >0: cancel the server context at that decision
	Fences             bool // yield fences in readFrames / sendServeMsg are active
	CaptureFences      bool // yield before every lock around the captured fingerprint data (serve loop)
	BodyReadFences     bool // yield in noteBodyReadFromHandler (request body credit message)
	// LocalAbandon: requests (by tag) that are not handed to the reverse proxy but to a stub of a
	// library user's handler that reads ReadBytes of the request body, closes it, sends its
	// response header, stays busy for HoldMS of simulated time and then answers "abandoned:<tag>"
	// - the "handler abandons the body while the stream stays open" case of C12's quantifier (with
	// go1.26's httputil.ReverseProxy the inbound body is never closed before the handler returns)
	LocalAbandon       map[string]AbandonPlan
	ServeFences        bool   // yield before the serve loop's select while an asynchronous write is in flight
	WriteFences        bool   // yield at the start of writeFrameAsync: a frame write stays in flight as long as the controller likes (stand-in for TCP back-pressure)
	H2DecoderTableSize uint32 // > 0: proxyserver.Server.HTTP2Server.MaxDecoderHeaderTableSize
	CancelBeforeServe  bool
	SchedKind          string // "", "rr", "priority", "random": write scheduler installed through NewWriteScheduler
	SchedCfg           *http2.PriorityWriteSchedulerConfig
	SchedMonitor       bool
	SecondCancelAtStep int
	Invariant          func(w *World) `json:"-"` // evaluated at every quiescent point
	Setup              func(w *World) `json:"-"` // adds further actors once the world exists (inside the bubble)
	NoTagWrap          bool
}

type FaultPlan struct {
	// per front connection (client id): faults on the proxy side of the conn
	Front map[int]ConnFaults
	// back-end dial indexes that are refused
	RefuseDial []int
	// every back-end dial takes this long (simulated time) to complete
	SlowDial time.Duration
	// panics injected at user callbacks: "getcert","getconfig","connstate","injector","handler" -> occurrence (1-based)
	PanicAt   map[string]int
	PanicAddr string // only callbacks made for this peer address count (empty: all)
	// error returns
	ErrorAt map[string]int
}

type ExtraInjector struct {
	Name  string
	Mode  string // "value", "empty", "error"
	Value string
}

type BackendPlan struct {
	// response per tag; missing => default 200 "ok:<tag>"
	Resp map[string]*RespPlan
}

type RespPlan struct {
	Status      int
	Header      [][2]string
	Body        []byte
	Chunks      []int // body is written in these piece sizes with Flush in between (nil: one write)
	DelayMS     int   // the handler sleeps (simulated time) before answering
	Hold        bool  // the handler parks at a yield point until the controller releases it
	NoRead      bool  // the handler answers without reading the request body
	Park        bool  // the handler parks until the drain phase (not offered to the controller during Run)
	Trailer     [][2]string
	LateTrailer [][2]string // trailers the handler did not announce in the Trailer header (sent with http.TrailerPrefix)
	Early       [][2]string // header fields of a 103 (Early Hints) informational response sent before the final one
	NoCL        bool
	HoldEnd     bool // the handler parks at a yield point after its last (flushed) body byte, before it returns
}

type BackendReq struct {
	Tag        string
	Method     string
	RequestURI string
	Host       string
	Proto      string
	Header     http.Header
	Body       []byte
	BodyErr    string
	Trailer    http.Header
	RemoteAddr string
	Step       int // controller decision during which it arrived
	ConnName   string
	Tunnel     []byte // bytes received on the tunnel after a protocol upgrade (Upgrade: verif-echo)
}

type Decision struct {
	Label string
	N     int // number of alternatives
	V     int // chosen
}

type Violation struct {
	Class string // short class, stable across shrinking
	Sig   string // signature for known-findings matching
	Msg   string
}

type World struct {
	T    testingT
	Plan *Plan
	Net  *Net

	Front   *Listener
	BackL   *Listener
	Dialer  *Dialer
	Srv     *proxyserver.Server
	BackSrv *http.Server
	ctx     context.Context
	Cancel  context.CancelFunc

	mu          sync.Mutex
	ServeErr    error
	ServeDone   bool
	ServeDoneAt time.Duration
	CancelledAt time.Duration
	Cancelled   bool
	BackReqs    []*BackendReq
	Clients     []*Client
	LogBuf      bytes.Buffer

	Step          int
	Decisions     []Decision
	digest        hash.Hash
	rng           *pcg
	tapePos       int
	Violations    []Violation
	Start         time.Time
	Probes        map[string]int
	Yields        []*yieldPoint
	Sched         SchedStats
	Parked        []*yieldPoint
	draining      bool
	handoverSeq   int
	captureSeq    int
	callbackCount map[string]int
	Stuck         bool
	schedHash     hash.Hash
	ConnStates    []string
	Aux           any
	Actors        []*Actor
	sessCaches    map[int]utls.ClientSessionCache
	OnTeardown    func()
}

type testingT interface {
	Logf(string, ...any)
}

type pcg struct{ s uint64 }

func (p *pcg) next() uint64 {
	// splitmix64
	p.s += 0x9e3779b97f4a7c15
	z := p.s
	z = (z ^ (z >> 30)) * 0xbf58476d1ce4e5b9
	z = (z ^ (z >> 27)) * 0x94d049bb133111eb
	return z ^ (z >> 31)
}

func (w *World) Probe(name string) {
	w.mu.Lock()
	w.Probes[name]++
	w.mu.Unlock()
}

func (w *World) Violate(class, sig, format string, args ...any) {
	w.mu.Lock()
	defer w.mu.Unlock()
	w.Violations = append(w.Violations, Violation{class, sig, fmt.Sprintf(format, args...)})
}

// choice draws from the tape, then from the PRNG.
func (w *World) choice(label string, n int) int {
	if n <= 1 {
		return 0
	}
	var v int
	if w.tapePos < len(w.Plan.Tape) {
		v = int(w.Plan.Tape[w.tapePos]) % n
		w.tapePos++
	} else {
		v = int(w.rng.next() % uint64(n))
	}
	w.Decisions = append(w.Decisions, Decision{label, n, v})
	return v
}

func (w *World) Now() time.Duration { return time.Since(w.Start) }

type yieldPoint struct {
	name string
	ch   chan struct{}
}

// Yield parks the calling goroutine until the controller releases it.  Only
// called from places where the caller holds no lock (see DESIGN.md 3.4).
func (w *World) Yield(name string) {
	yp := &yieldPoint{name: name, ch: make(chan struct{})}
	w.mu.Lock()
	w.Yields = append(w.Yields, yp)
	w.mu.Unlock()
	<-yp.ch
}

// Park blocks the caller until the drain phase / teardown.
func (w *World) Park(name string) {
	yp := &yieldPoint{name: name, ch: make(chan struct{})}
	w.mu.Lock()
	if w.draining {
		w.mu.Unlock()
		return
	}
	w.Parked = append(w.Parked, yp)
	w.mu.Unlock()
	<-yp.ch
}

func (w *World) releaseParked() {
	w.mu.Lock()
	w.draining = true
	ps := w.Parked
	w.Parked = nil
	w.mu.Unlock()
	for _, y := range ps {
		close(y.ch)
	}
}

type lockedWriter struct {
	mu *sync.Mutex
	b  *bytes.Buffer
}

func (l lockedWriter) Write(p []byte) (int, error) {
	l.mu.Lock()
	defer l.mu.Unlock()
	if l.b.Len() < 1<<20 {
		l.b.Write(p)
	}
	return len(p), nil
}

var initCertOnce sync.Once

func InitProcess() {
	initCertOnce.Do(func() {
		runtime.GOMAXPROCS(1)
		if raceMode() && os.Getenv("VERIF_CHECK") == "C06" {
			// the cross-connection race worker: goroutines of different connections woken by one
			// controller step run on different Ps, so that per-P pools and run-queue order do not
			// chain them into one happens-before line (reports are "seen once" by nature)
			runtime.GOMAXPROCS(4)
		}
		// hellos without any extension can only use RSA key exchange
		os.Setenv("GODEBUG", "tlsrsakex=1")
		dir := os.Getenv("VERIF_TESTDATA")
		if dir == "" {
			dir = "/verif/testdata"
		}
		if err := fingerproxy.VerifInitCert(dir+"/tls.crt", dir+"/tls.key"); err != nil {
			panic(err)
		}
		for _, k := range []string{"LISTEN_ADDR", "FORWARD_URL", "PRESERVE_HOST", "MAX_H2_PRIORITY_FRAMES", "ENABLE_KUBERNETES_PROBE",
			"REVERSE_PROXY_FLUSH_INTERVAL", "TIMEOUT_HTTP_IDLE", "TIMEOUT_HTTP_READ", "TIMEOUT_HTTP_WRITE", "TIMEOUT_TLS_HANDSHAKE", "VERBOSE"} {
			os.Unsetenv(k)
		}
	})
}

// NewWorld must be called inside the bubble.
func NewWorld(t testingT, plan *Plan) *World {
	w := &World{T: t, Plan: plan, Net: NewNet(), Probes: map[string]int{}, callbackCount: map[string]int{}}
	w.Start = time.Now()
	w.digest = sha256.New()
	w.schedHash = sha256.New()
	w.rng = &pcg{s: plan.Tail}
	setDetRand(plan.Tail, 0)
	http2.VerifResetPools()
	http2.VerifYield = nil
	if os.Getenv("VERIF_SERVEFENCES") != "" {
		plan.ServeFences = true // dev aid: every run of any check takes the serve fence
	}
	if plan.Fences || plan.CaptureFences || plan.BodyReadFences || plan.WriteFences || plan.ServeFences {
		http2.VerifYield = func(site, remote string) {
			if site == "capture" {
				if plan.CaptureFences {
					w.mu.Lock()
					w.captureSeq++
					k := w.captureSeq
					w.mu.Unlock()
					w.Yield(fmt.Sprintf("capture#%04d", k))
				}
				return
			}
			if site == "write" {
				if plan.WriteFences {
					w.mu.Lock()
					w.captureSeq++
					k := w.captureSeq
					w.mu.Unlock()
					w.Probes["write_fence"]++
					w.Yield(fmt.Sprintf("write#%05d:%s", k, remote))
				}
				return
			}
			if site == "serve" {
				if plan.ServeFences {
					w.mu.Lock()
					w.captureSeq++
					k := w.captureSeq
					w.mu.Unlock()
					w.Probes["serve_fence"]++
					w.Yield(fmt.Sprintf("serve#%05d:%s", k, remote))
				}
				return
			}
			if site == "bodyread" {
				if plan.BodyReadFences {
					w.mu.Lock()
					w.captureSeq++
					k := w.captureSeq
					w.mu.Unlock()
					w.Yield(fmt.Sprintf("bodyread#%05d", k))
				}
				return
			}
			if plan.Fences {
				w.Yield(site + ":" + remote)
			}
		}
	}

	metadata.VerifYield = nil
	if plan.CaptureFences {
		metadata.VerifYield = func(site string) {
			w.mu.Lock()
			w.captureSeq++
			k := w.captureSeq
			w.mu.Unlock()
			w.Yield(fmt.Sprintf("%s#%04d", site, k))
		}
	}
	proxyserver.VerifYield = nil
	if plan.Fences {
		proxyserver.VerifYield = func(site, remote string) {
			w.mu.Lock()
			w.handoverSeq++
			k := w.handoverSeq
			w.mu.Unlock()
			w.Yield(fmt.Sprintf("%s#%d:%s", site, k, remote))
		}
	}

	lw := lockedWriter{&w.mu, &w.LogBuf}
	mk := func(p string) *log.Logger { return log.New(lw, p, 0) }
	fingerproxy.ProxyServerLog = mk("[proxyserver] ")
	fingerproxy.HTTPServerLog = mk("[http] ")
	fingerproxy.PrometheusLog = mk("[metrics] ")
	fingerproxy.ReverseProxyLog = mk("[reverseproxy] ")
	fingerproxy.FingerprintLog = mk("[fingerprint] ")
	fingerproxy.CertWatcherLog = mk("[certwatcher] ")
	fingerproxy.DefaultLog = mk("[fingerproxy] ")
	log.SetOutput(lw)

	w.Net.onNewPair = func(p *Pair) {
		var id int
		if n, _ := fmt.Sscanf(p.Name, "c%d", &id); n == 1 {
			if f, ok := plan.Faults.Front[id]; ok {
				p.B.Faults = f
			}
		}
	}
	w.Front = w.Net.NewListener(tcpAddr(frontAddr))
	w.BackL = w.Net.NewListener(tcpAddr(backendAddr))
	w.Dialer = &Dialer{Net: w.Net, Backend: w.BackL, From: tcpAddr(proxyOut), RefuseAt: map[int]bool{}}
	for _, i := range plan.Faults.RefuseDial {
		w.Dialer.RefuseAt[i] = true
	}
	w.Dialer.Hold = plan.Faults.SlowDial
	http.DefaultTransport = &http.Transport{
		DialContext:           w.Dialer.DialContext,
		DisableKeepAlives:     !plan.BackendKeepAlive,
		MaxIdleConns:          100,
		IdleConnTimeout:       90 * time.Second,
		ExpectContinueTimeout: 1 * time.Second,
		DisableCompression:    true,
	}

	// injectors: default set through the package variable, plus extras
	fingerproxy.GetHeaderInjectors = func() []reverseproxy.HeaderInjector {
		inj := []reverseproxy.HeaderInjector{}
		if plan.YieldInjector {
			inj = append(inj, &yieldInjector{w, false})
		}
		if plan.ParkInjector {
			inj = append(inj, &yieldInjector{w, true})
		}
		if n := plan.Faults.PanicAt["injector"]; n > 0 {
			inj = append(inj, &panicInjector{w: w, at: n})
		}
		inj = append(inj, fingerproxy.DefaultHeaderInjectors()...)
		if !plan.ExtraInjectorsLate {
			for _, e := range plan.ExtraInjectors {
				inj = append(inj, &extraInjector{e})
			}
		}
		return inj
	}

	w.ctx, w.Cancel = context.WithCancel(context.Background())
	args := append([]string{"-forward-url", "http://" + backendAddr + plan.ForwardPrefix}, plan.Args...)
	// a quarter of the runs (a function of the plan) ask for verbose logs: no property depends on
	// that flag, so nothing a check observes may change with it (wave 12: C01-s, C15-r)
	if plan.Tail%4 == 2 && !slices.Contains(args, "-verbose") {
		args = append(args, "-verbose")
		w.Probes["verbose_logs"]++
	}
	// every option has an environment variable of the same meaning (flags.go / env.go): in a
	// third of the runs (a function of the plan) the configuration reaches the proxy that way
	var envSet []string
	if plan.Tail%3 == 1 {
		if env, ok := argsToEnv(args); ok {
			for _, kv := range env {
				os.Setenv(kv[0], kv[1])
				envSet = append(envSet, kv[0])
			}
			args = nil
			w.Probes["configured_through_environment"]++
		}
	}
	srv, err := fingerproxy.VerifBuild(w.ctx, args)
	for _, k := range envSet {
		os.Unsetenv(k)
	}
	w.Srv = srv
	if err == nil && plan.H2DecoderTableSize > 0 {
		// a library user's setting (no flag reaches it): the HPACK table size the HTTP/2 server
		// advertises and accepts
		srv.HTTP2Server.MaxDecoderHeaderTableSize = plan.H2DecoderTableSize
	}
	if err != nil {
		panic(fmt.Sprintf("VerifBuild: %v", err))
	}
	if plan.ExtraInjectorsLate {
		// the other way a library user adds custom injectors: appending to the handler's
		// exported HeaderInjectors field after it has been constructed
		if h, ok := srv.HTTPServer.Handler.(*reverseproxy.HTTPHandler); ok {
			for _, e := range plan.ExtraInjectors {
				h.HeaderInjectors = append(h.HeaderInjectors, &extraInjector{e})
			}
			w.Probes["custom_injectors_appended_after_construction"]++
		} else {
			panic(fmt.Sprintf("HARNESS: the server's handler is %T, not *reverseproxy.HTTPHandler", srv.HTTPServer.Handler))
		}
	}
	w.Srv = srv
	if !plan.NoTagWrap {
		inner := srv.HTTPServer.Handler
		srv.HTTPServer.Handler = http.HandlerFunc(func(rw http.ResponseWriter, r *http.Request) {
			if n := plan.Faults.PanicAt["handler"]; n > 0 && w.countCallbackFrom("handler", r.RemoteAddr) == n {
				w.Net.mu.Lock()
				w.Net.fired("panic_handler")
				w.Net.mu.Unlock()
				panic("verif: injected handler panic")
			}
			if tag := r.Header.Get("X-Tag"); tag != "" {
				if ab, ok := plan.LocalAbandon[tag]; ok {
					w.abandonHandler(rw, r, tag, ab)
					return
				}
				r = r.WithContext(WithTag(r.Context(), tag))
			}
			inner.ServeHTTP(rw, r)
		})
	}
	w.installTLSFaults()
	if plan.SchedKind != "" {
		srv.HTTP2Server.NewWriteScheduler = w.newScheduler
	}

	// back-end
	w.BackSrv = &http.Server{Handler: http.HandlerFunc(w.backendHandler), ErrorLog: mk("[backend] ")}
	go w.BackSrv.Serve(w.BackL)

	if plan.CancelBeforeServe {
		w.Cancelled = true
		w.Cancel()
		w.Net.fired("cancel_before_serve")
	}
	go func() {
		err := srv.Serve(w.Front)
		w.mu.Lock()
		w.ServeErr = err
		w.ServeDone = true
		w.ServeDoneAt = w.Now()
		w.mu.Unlock()
	}()

	for _, cp := range plan.Clients {
		c := newClient(w, cp)
		w.Clients = append(w.Clients, c)
		go c.run()
	}
	if plan.Setup != nil {
		plan.Setup(w)
	}
	return w
}

// countCallbackFrom counts a callback occurrence only if it was made on behalf of
// the connection the fault plan names (PanicAddr), so that an injected panic always
// belongs to the faulty connection; returns 0 for other connections.
func (w *World) countCallbackFrom(name, remote string) int {
	if a := w.Plan.Faults.PanicAddr; a != "" && remote != a {
		return 0
	}
	return w.countCallback(name)
}

func (w *World) sessionCache(group int) utls.ClientSessionCache {
	w.mu.Lock()
	defer w.mu.Unlock()
	if w.sessCaches == nil {
		w.sessCaches = map[int]utls.ClientSessionCache{}
	}
	if w.sessCaches[group] == nil {
		w.sessCaches[group] = utls.NewLRUClientSessionCache(4)
	}
	return w.sessCaches[group]
}

func (w *World) countCallback(name string) int {
	w.mu.Lock()
	defer w.mu.Unlock()
	w.callbackCount[name]++
	return w.callbackCount[name]
}

func (w *World) installTLSFaults() {
	f := w.Plan.Faults
	cfg := w.Srv.TLSConfig
	if n := f.PanicAt["getcert"]; n > 0 {
		inner := cfg.GetCertificate
		cfg.GetCertificate = func(chi *tls.ClientHelloInfo) (*tls.Certificate, error) {
			if w.countCallbackFrom("getcert", chi.Conn.RemoteAddr().String()) == n {
				w.Net.mu.Lock()
				w.Net.fired("panic_getcert")
				w.Net.mu.Unlock()
				panic("verif: injected GetCertificate panic")
			}
			return inner(chi)
		}
	}
	if n := f.ErrorAt["getcert"]; n > 0 {
		inner := cfg.GetCertificate
		cfg.GetCertificate = func(chi *tls.ClientHelloInfo) (*tls.Certificate, error) {
			if w.countCallback("getcert_err") == n {
				w.Net.mu.Lock()
				w.Net.fired("error_getcert")
				w.Net.mu.Unlock()
				return nil, fmt.Errorf("verif: injected GetCertificate error")
			}
			return inner(chi)
		}
	}
	if n := f.PanicAt["getconfig"]; n > 0 {
		cfg.GetConfigForClient = func(chi *tls.ClientHelloInfo) (*tls.Config, error) {
			if w.countCallbackFrom("getconfig", chi.Conn.RemoteAddr().String()) == n {
				w.Net.mu.Lock()
				w.Net.fired("panic_getconfig")
				w.Net.mu.Unlock()
				panic("verif: injected GetConfigForClient panic")
			}
			return nil, nil
		}
	}
	if n := f.PanicAt["connstate"]; n > 0 {
		w.Srv.HTTPServer.ConnState = func(c net.Conn, st http.ConnState) {
			if w.countCallbackFrom("connstate", c.RemoteAddr().String()) == n {
				w.Net.mu.Lock()
				w.Net.fired("panic_connstate")
				w.Net.mu.Unlock()
				panic("verif: injected ConnState panic")
			}
		}
	}
}

// ------------------------------------------------------------- injectors

type yieldInjector struct {
	w    *World
	park bool
}

func (y *yieldInjector) GetHeaderName() string { return "X-Verif-Yield" }
func (y *yieldInjector) GetHeaderValue(r *http.Request) (string, error) {
	if y.park {
		y.w.Park("inj:" + r.Header.Get("X-Tag"))
	} else {
		y.w.Yield("inj:" + r.Header.Get("X-Tag"))
	}
	return "", nil
}

type panicInjector struct {
	w  *World
	at int
}

func (p *panicInjector) GetHeaderName() string { return "X-Verif-Panic" }
func (p *panicInjector) GetHeaderValue(r *http.Request) (string, error) {
	if p.w.countCallbackFrom("injector", r.RemoteAddr) == p.at {
		p.w.Net.mu.Lock()
		p.w.Net.fired("panic_injector")
		p.w.Net.mu.Unlock()
		panic("verif: injected injector panic")
	}
	return "", nil
}

type extraInjector struct{ e ExtraInjector }

func (x *extraInjector) GetHeaderName() string { return x.e.Name }
func (x *extraInjector) GetHeaderValue(r *http.Request) (string, error) {
	switch x.e.Mode {
	case "error":
		return "", fmt.Errorf("verif: injector error")
	case "empty":
		return "", nil
	}
	return x.e.Value, nil
}

// --------------------------------------------------------------- back-end

// backendTunnel answers a protocol upgrade with 101 and echoes every byte of the tunnel back
// until the peer goes away; with X-Hangup: n it hangs up itself once n bytes have been echoed.
func (w *World) backendTunnel(rw http.ResponseWriter, r *http.Request, rec *BackendReq) {
	hj, ok := rw.(http.Hijacker)
	if !ok {
		rw.WriteHeader(500)
		return
	}
	conn, brw, err := hj.Hijack()
	if err != nil {
		return
	}
	defer conn.Close()
	hang, _ := strconv.Atoi(r.Header.Get("X-Hangup"))
	fmt.Fprintf(brw, "HTTP/1.1 101 Switching Protocols\r\nConnection: Upgrade\r\nUpgrade: verif-echo\r\nX-Backend-Tag: %s\r\n\r\n", rec.Tag)
	if brw.Flush() != nil {
		return
	}
	buf := make([]byte, 4096)
	total := 0
	for hang == 0 || total < hang {
		n, err := brw.Read(buf)
		if n > 0 {
			w.mu.Lock()
			rec.Tunnel = append(rec.Tunnel, buf[:n]...)
			w.mu.Unlock()
			total += n
			if _, werr := conn.Write(buf[:n]); werr != nil {
				return
			}
		}
		if err != nil {
			return
		}
	}
}

// AbandonPlan: see Plan.LocalAbandon.
type AbandonPlan struct {
	ReadBytes int
	HoldMS    int
}

func (w *World) abandonHandler(rw http.ResponseWriter, r *http.Request, tag string, ab AbandonPlan) {
	if ab.ReadBytes > 0 {
		io.ReadFull(r.Body, make([]byte, ab.ReadBytes))
	}
	r.Body.Close()
	w.Probe("handler_abandoned_request_body")
	rw.Header().Set("X-Abandoned", tag)
	rw.WriteHeader(200)
	if f, ok := rw.(http.Flusher); ok {
		f.Flush()
	}
	// busy elsewhere: the clock moves only when nothing else in the world can, so everything the
	// client sends in the meantime meets an open stream whose request body is closed
	time.Sleep(time.Duration(ab.HoldMS) * time.Millisecond)
	io.WriteString(rw, "abandoned:"+tag)
}

func (w *World) backendHandler(rw http.ResponseWriter, r *http.Request) {
	var body []byte
	var err error
	if pl := w.Plan.Backend.Resp[r.Header.Get("X-Tag")]; pl != nil && pl.NoRead {
		// answer without touching the request body
	} else {
		body, err = io.ReadAll(r.Body)
	}
	rec := &BackendReq{
		Tag: r.Header.Get("X-Tag"), Method: r.Method, RequestURI: r.RequestURI, Host: r.Host, Proto: r.Proto,
		Header: r.Header.Clone(), Body: body, Trailer: r.Trailer.Clone(), RemoteAddr: r.RemoteAddr,
	}
	if err != nil {
		rec.BodyErr = err.Error()
	}
	w.mu.Lock()
	rec.Step = w.Step
	w.BackReqs = append(w.BackReqs, rec)
	w.mu.Unlock()

	if r.Header.Get("Upgrade") == "verif-echo" {
		w.backendTunnel(rw, r, rec)
		return
	}
	rp := w.Plan.Backend.Resp[rec.Tag]
	if rp != nil && rp.Hold {
		w.Yield("backend:" + rec.Tag)
	}
	if rp != nil && rp.Park {
		w.Park("backend:" + rec.Tag)
	}
	if rp != nil && rp.DelayMS > 0 {
		time.Sleep(time.Duration(rp.DelayMS) * time.Millisecond)
	}
	if rp == nil {
		rw.Header().Set("X-Backend-Tag", rec.Tag)
		rw.WriteHeader(200)
		io.WriteString(rw, "ok:"+rec.Tag)
		return
	}
	h := rw.Header()
	for _, kv := range rp.Header {
		h.Add(kv[0], kv[1])
	}
	if len(rp.Trailer) > 0 {
		names := []string{}
		for _, kv := range rp.Trailer {
			// one announcement per name (net/http emits a trailer once per announcement)
			if !slices.Contains(names, kv[0]) {
				names = append(names, kv[0])
			}
		}
		h.Set("Trailer", strings.Join(names, ","))
	}
	if !rp.NoCL && len(rp.Trailer) == 0 && len(rp.LateTrailer) == 0 {
		h.Set("Content-Length", fmt.Sprint(len(rp.Body)))
	}
	st := rp.Status
	if st == 0 {
		st = 200
	}
	if len(rp.Early) > 0 {
		// an informational response first: its fields are sent with it and taken back out
		saved := h.Clone()
		for k := range h {
			h.Del(k)
		}
		for _, kv := range rp.Early {
			h.Add(kv[0], kv[1])
		}
		rw.WriteHeader(http.StatusEarlyHints)
		for k := range h {
			h.Del(k)
		}
		for k, vv := range saved {
			h[k] = vv
		}
	}
	rw.WriteHeader(st)
	if rp.Chunks == nil {
		rw.Write(rp.Body)
	} else {
		rest := rp.Body
		fl, _ := rw.(http.Flusher)
		for _, k := range rp.Chunks {
			if k > len(rest) {
				k = len(rest)
			}
			rw.Write(rest[:k])
			rest = rest[k:]
			if fl != nil {
				fl.Flush()
			}
		}
		rw.Write(rest)
	}
	if rp.HoldEnd {
		// the whole body is out; the end of the response (terminating chunk / END_STREAM) is not
		if fl, ok := rw.(http.Flusher); ok {
			fl.Flush()
		}
		w.Yield("backend-end:" + rec.Tag)
	}
	for _, kv := range rp.Trailer {
		h.Add(kv[0], kv[1])
	}
	if len(rp.LateTrailer) > 0 {
		// unannounced trailers need a chunked response: flush before the handler returns,
		// or net/http computes a Content-Length and drops them
		if fl, ok := rw.(http.Flusher); ok {
			fl.Flush()
		}
	}
	for _, kv := range rp.LateTrailer {
		h.Add(http.TrailerPrefix+kv[0], kv[1])
	}
}

func (w *World) ReqsByTag() map[string][]*BackendReq {
	w.mu.Lock()
	defer w.mu.Unlock()
	m := map[string][]*BackendReq{}
	for _, r := range w.BackReqs {
		m[r.Tag] = append(m[r.Tag], r)
	}
	return m
}

// ------------------------------------------------------------- controller

// Actor: a generic scripted participant (used by the transport world of C12):
// a goroutine whose steps are released one at a time by the controller.
type Actor struct {
	W     *World
	Name  string
	Steps []ActorStep
	gate  chan struct{}
	quit  chan struct{}
	// guarded by W.mu
	atGate bool
	done   bool
	next   int
	Errs   []string
}

type ActorStep struct {
	Name      string
	Fn        func() error
	WhenQuiet bool   // offered only while nothing is in flight or parked anywhere
	After     *Actor // offered only once this actor has finished
}

func (w *World) AddActor(name string, steps []ActorStep) *Actor {
	a := &Actor{W: w, Name: name, Steps: steps, gate: make(chan struct{}), quit: make(chan struct{})}
	w.Actors = append(w.Actors, a)
	go a.run()
	return a
}

func (a *Actor) run() {
	defer func() {
		a.W.mu.Lock()
		a.done, a.atGate = true, false
		a.W.mu.Unlock()
	}()
	for i := range a.Steps {
		a.W.mu.Lock()
		a.next, a.atGate = i, true
		a.W.mu.Unlock()
		select {
		case <-a.gate:
		case <-a.quit:
			return
		}
		a.W.mu.Lock()
		a.atGate = false
		a.W.mu.Unlock()
		if err := a.Steps[i].Fn(); err != nil {
			a.W.mu.Lock()
			a.Errs = append(a.Errs, fmt.Sprintf("%s step %d %s: %v", a.Name, i, a.Steps[i].Name, err))
			a.W.mu.Unlock()
		}
	}
}

func (a *Actor) Done() bool {
	a.W.mu.Lock()
	defer a.W.mu.Unlock()
	return a.done
}

func (w *World) worldQuiet() bool {
	w.mu.Lock()
	parked := len(w.Yields)
	w.mu.Unlock()
	return parked == 0 && len(w.Net.Pending()) == 0
}

type action struct {
	label string
	do    func()
}

func (w *World) enabled() []action {
	var acts []action
	// deliveries, canonical order
	for _, p := range w.Net.Pending() {
		p := p
		if p.Dir == "ab" && w.blockedByFault(p) {
			continue
		}
		acts = append(acts, action{fmt.Sprintf("dl %s %s", p.Pair.Name, p.Dir), func() { w.deliver(p) }})
	}
	// client steps
	for _, c := range w.Clients {
		c := c
		if c.AtGate() && w.startAllowed(c) && w.quietAllowed(c) {
			acts = append(acts, action{fmt.Sprintf("step %s", c.Name), func() { c.gate <- struct{}{} }})
		}
		if c.Plan.AbortKind != "" && !c.aborted && c.conn != nil && c.conn.out.delivered == c.Plan.AbortAt {
			acts = append(acts, action{fmt.Sprintf("abort %s %s", c.Name, c.Plan.AbortKind), func() { w.abortClient(c) }})
		}
	}
	for _, a := range w.Actors {
		a := a
		w.mu.Lock()
		ok := a.atGate && !a.done
		quiet := ok && a.next < len(a.Steps) && a.Steps[a.next].WhenQuiet
		w.mu.Unlock()
		if ok && a.next < len(a.Steps) && a.Steps[a.next].After != nil && !a.Steps[a.next].After.Done() {
			ok = false
		}
		if ok && (!quiet || w.worldQuiet()) {
			acts = append(acts, action{"actor " + a.Name, func() { a.gate <- struct{}{} }})
		}
	}
	if w.Plan.Burst && len(acts) >= 2 {
		// everything that is enabled so far at once: the goroutines it wakes (serve loops and
		// handlers of different connections) run in the same step, with no happens-before
		// edge through the controller between them
		each := append([]action(nil), acts...)
		burst := action{"burst", func() {
			for _, a := range each {
				a.do()
			}
		}}
		for i, n := 0, len(each); i < n; i++ {
			acts = append(acts, burst) // weighted: about every second choice
		}
	}
	// yield releases
	w.mu.Lock()
	ys := append([]*yieldPoint(nil), w.Yields...)
	w.mu.Unlock()
	sort.SliceStable(ys, func(i, j int) bool { return ys[i].name < ys[j].name })
	for _, y := range ys {
		y := y
		acts = append(acts, action{"rel " + y.name, func() { w.release(y) }})
	}
	return acts
}

func (w *World) release(y *yieldPoint) {
	w.mu.Lock()
	for i, o := range w.Yields {
		if o == y {
			w.Yields = append(w.Yields[:i], w.Yields[i+1:]...)
			break
		}
	}
	w.mu.Unlock()
	close(y.ch)
}

// segmentation: how many of the in-flight bytes one delivery moves.
const maxDeliver = 65536

func (w *World) deliver(p Pending) {
	k := p.N
	if p.N > 1 {
		prof := w.segProfile(p)
		switch prof {
		case "byte":
			k = 1
		case "rand":
			// one of: all, 1, a random cut
			switch w.choice("seg", 4) {
			case 0, 1:
				k = p.N
			case 2:
				k = 1
			default:
				k = 1 + w.choice("cut", p.N-1)
			}
		case "cuts":
			k = w.nextCut(p)
		}
	}
	// one delivery hands over at most maxDeliver octets: a controller step stays far
	// below the runtime's 10 ms time slice, so that the order in which the goroutines woken
	// by the step run does not depend on time-sliced preemption (DESIGN 15.7)
	if k > maxDeliver {
		k = maxDeliver
	}
	if p.Dir == "ab" {
		if c := w.clientByName(p.Pair.Name); c != nil {
			lim := -1
			if c.Plan.AbortKind != "" {
				lim = c.Plan.AbortAt - p.Pair.A.out.delivered
			}
			if c.Plan.StallAt >= 0 && c.Plan.StallOn {
				lim = c.Plan.StallAt - p.Pair.A.out.delivered
			}
			if lim >= 0 && k > lim {
				k = lim
			}
		}
	}
	if k < p.N {
		w.Probes["partial_delivery"]++
	}
	w.Net.Deliver(p.Pair, p.Dir, k)
}

func (w *World) clientByName(name string) *Client {
	for _, c := range w.Clients {
		if c.Name == name {
			return c
		}
	}
	return nil
}

// blockedByFault: the client->proxy direction has reached its abort / stall offset.
func (w *World) blockedByFault(p Pending) bool {
	c := w.clientByName(p.Pair.Name)
	if c == nil {
		return false
	}
	d := p.Pair.A.out.delivered
	if c.Plan.AbortKind != "" && d >= c.Plan.AbortAt && p.N > 0 {
		return true
	}
	if c.Plan.StallOn && d >= c.Plan.StallAt {
		if !c.stalled {
			c.stalled = true
			w.Net.fired("client_stall")
		}
		return true
	}
	return false
}

// quietAllowed: a step marked WhenQuiet waits until nothing is in flight on the
// client's connection in either direction.
func (w *World) quietAllowed(c *Client) bool {
	c.W.mu.Lock()
	i := c.nextStep
	c.W.mu.Unlock()
	if i >= len(c.Plan.Steps) || !c.Plan.Steps[i].WhenQuiet || c.conn == nil {
		return true
	}
	// nobody parked at a fence either: a parked goroutine may be about to write
	w.mu.Lock()
	parked := len(w.Yields)
	w.mu.Unlock()
	if parked > 0 {
		return false
	}
	w.Net.mu.Lock()
	defer w.Net.mu.Unlock()
	p := c.conn.pair
	return len(p.A.out.inflight) == 0 && len(p.B.out.inflight) == 0
}

func (w *World) startAllowed(c *Client) bool {
	c.W.mu.Lock()
	first := c.stepIdx == 0 && !c.started
	c.W.mu.Unlock()
	if !first {
		return true
	}
	if c.Plan.StartAfterCancel && !w.Cancelled {
		return false
	}
	for _, id := range c.Plan.StartAfterPing {
		w.mu.Lock()
		ok := w.Clients[id].Pinged
		w.mu.Unlock()
		if !ok {
			return false
		}
	}
	for _, id := range c.Plan.StartAfterDone {
		if !w.Clients[id].Done() {
			return false
		}
	}
	return true
}

func (w *World) abortClient(c *Client) {
	c.aborted = true
	c.AbortedAt = w.Now()
	if c.Plan.AbortKind == "rst" {
		w.Net.fired("client_rst_at_offset")
		w.Net.Reset(c.conn)
	} else {
		w.Net.fired("client_fin_at_offset")
		w.Net.AbortFIN(c.conn)
	}
	c.abort()
}

// AbortFIN: the client process goes away cleanly at this instant: what it had
// written but the network had not delivered is dropped, a FIN follows.
func (n *Net) AbortFIN(c *Conn) {
	n.mu.Lock()
	c.pair.mu.Lock()
	c.out.inflight = nil
	c.pair.mu.Unlock()
	n.mu.Unlock()
	c.Close()
}

func (w *World) segProfile(p Pending) string {
	for _, c := range w.Clients {
		if c.Name == p.Pair.Name && p.Dir == "ab" {
			return c.Plan.Seg.profileAt(p.Pair.A.out.delivered)
		}
		if c.Name == p.Pair.Name && p.Dir == "ba" {
			return c.Plan.SegDown
		}
	}
	return ""
}

func (w *World) nextCut(p Pending) int {
	for _, c := range w.Clients {
		if c.Name == p.Pair.Name {
			off := p.Pair.A.out.delivered
			for _, cut := range c.Plan.Seg.Cuts {
				if cut > off {
					if cut-off < p.N {
						return cut - off
					}
					return p.N
				}
			}
		}
	}
	return p.N
}

// SegPlan: how the client->proxy direction is cut into deliveries.
type SegPlan struct {
	Profile string // "", "byte", "rand", "cuts"
	Until   int    // profile applies to the first Until bytes (0: always)
	Cuts    []int  // absolute stream offsets for "cuts"
}

func (s SegPlan) profileAt(delivered int) string {
	if s.Profile == "" {
		return ""
	}
	if s.Until > 0 && delivered >= s.Until {
		return ""
	}
	return s.Profile
}

func (w *World) allClientsDone() bool {
	for _, c := range w.Clients {
		if !c.Done() {
			return false
		}
	}
	for _, a := range w.Actors {
		if !a.Done() {
			return false
		}
	}
	return true
}

func (w *World) absorb(label string) {
	ops := w.Net.TakeOps()
	fmt.Fprintf(w.digest, "%d|%s|%s\n", w.Step, label, ops)
	if os.Getenv("VERIF_TRACE") != "" {
		fmt.Fprintf(os.Stderr, "TRACE %d|%v|%s|%s\n", w.Step, w.Now(), label, ops)
	}
}

func (w *World) Digest() string    { return hex.EncodeToString(w.digest.Sum(nil))[:16] }
func (w *World) SchedHash() string { return hex.EncodeToString(w.schedHash.Sum(nil))[:16] }

var advanceMenu = []time.Duration{50 * time.Millisecond, 200 * time.Millisecond, time.Second, 5 * time.Second, 30 * time.Second, 2 * time.Minute, 10 * time.Minute}

// Run is the controller loop.  Returns when all clients have finished their
// scripts (or the budget is exhausted), after a fair drain phase.
func (w *World) Run() {
	budget := w.Plan.Budget
	if budget == 0 {
		budget = 3000
	}
	idle := 0
	last := "start"
	for w.Step < budget {
		synctest.Wait()
		// every controller step gets its own instant of simulated time: deadlines and timers
		// armed in different steps then never tie (the runtime orders timers of equal expiry
		// by the shape of its heap, which also holds real-time timers of the runtime itself)
		time.Sleep(time.Microsecond)
		synctest.Wait()
		w.absorb(last)
		setDetRand(w.Plan.Tail, w.Step+1)
		if w.Plan.CancelAtStep > 0 && !w.Cancelled && (w.Step >= w.Plan.CancelAtStep || len(w.enabled()) == 0) {
			w.Cancelled = true
			w.CancelledAt = w.Now()
			w.Cancel()
			w.Net.fired("cancel")
			last = "cancel"
			w.mu.Lock()
			w.Step++
			w.mu.Unlock()
			continue
		}
		if w.Plan.SecondCancelAtStep > 0 && w.Step == w.Plan.SecondCancelAtStep && w.Cancelled {
			w.Cancel()
			w.Net.fired("repeated_cancel")
		}
		if w.Plan.Invariant != nil {
			w.Plan.Invariant(w)
		}
		acts := w.enabled()
		if len(acts) == 0 {
			if w.allClientsDone() {
				break
			}
			// every goroutine waits for time: advance the clock
			if idle >= len(advanceMenu)+3 {
				w.Stuck = true
				break
			}
			d := advanceMenu[min(idle, len(advanceMenu)-1)]
			idle++
			time.Sleep(d)
			last = fmt.Sprintf("adv %v", d)
			w.Probes["time_advance"]++
			w.mu.Lock()
			w.Step++
			w.mu.Unlock()
			continue
		}
		idle = 0
		i := w.choice("act", len(acts))
		last = acts[i].label
		fmt.Fprintf(w.schedHash, "%s\n", last)
		w.mu.Lock()
		w.Step++
		w.mu.Unlock()
		acts[i].do()
	}
	synctest.Wait()
	w.absorb(last)
}

// Drain: no more faults, FIFO choices, bounded; lets in-flight work finish.
func (w *World) Drain(maxSteps int) {
	w.releaseParked()
	for i := 0; i < maxSteps; i++ {
		synctest.Wait()
		acts := w.enabled()
		if len(acts) == 0 {
			return
		}
		setDetRand(w.Plan.Tail, w.Step+1)
		acts[0].do()
		w.mu.Lock()
		w.Step++
		w.mu.Unlock()
	}
}

// SettleTime advances simulated time in small steps, delivering everything
// in FIFO order in between, so that timers (GOAWAY close, handshake timeout,
// Shutdown polling) and their consequences run out.
func (w *World) SettleTime(seconds int) {
	for i := 0; i < seconds*2; i++ {
		w.Drain(2000)
		time.Sleep(500 * time.Millisecond)
	}
	w.Drain(2000)
	synctest.Wait()
}

// Teardown unwinds every goroutine of the world so the bubble can end.
func (w *World) Teardown() {
	w.releaseParked()
	w.Cancel()
	w.mu.Lock()
	ys := w.Yields
	w.Yields = nil
	w.mu.Unlock()
	for _, y := range ys {
		close(y.ch)
	}
	for _, c := range w.Clients {
		c.abort()
	}
	for _, a := range w.Actors {
		select {
		case <-a.quit:
		default:
			close(a.quit)
		}
	}
	if w.OnTeardown != nil {
		w.OnTeardown()
	}
	synctest.Wait()
	w.Net.KillAll()
	w.BackSrv.Close()
	synctest.Wait()
	// let timers (Shutdown polling, idle timers) run out
	for i := 0; i < 6; i++ {
		time.Sleep(2 * time.Second)
		synctest.Wait()
		w.mu.Lock()
		ys := w.Yields
		w.Yields = nil
		w.mu.Unlock()
		for _, y := range ys {
			close(y.ch)
		}
		w.Net.KillAll()
	}
}

// KillAll resets every connection and wakes every reader.
func (n *Net) KillAll() {
	n.mu.Lock()
	defer n.mu.Unlock()
	for _, name := range n.names {
		p := n.pairs[name]
		p.mu.Lock()
		for _, c := range []*Conn{p.A, p.B} {
			c.in.rst = true
			c.out.broken = true
			c.in.inflight = nil
			c.wakeLocked()
		}
		p.mu.Unlock()
	}
}

// Census returns the stacks of goroutines (other than the caller) that match
// any of the given substrings.  Taken at quiescence it is stable.
func Census(match ...string) []string {
	buf := make([]byte, 1<<20)
	for {
		n := runtime.Stack(buf, true)
		if n < len(buf) {
			buf = buf[:n]
			break
		}
		buf = make([]byte, 2*len(buf))
	}
	var out []string
	for _, g := range strings.Split(string(buf), "\n\n") {
		for _, m := range match {
			if strings.Contains(g, m) {
				out = append(out, g)
				break
			}
		}
	}
	return out
}

var boolFlags = map[string]bool{"preserve-host": true, "enable-kubernetes-probe": true, "verbose": true}

// argsToEnv turns "-name value" / "-name=value" / "-boolname" arguments into the environment
// variables of the same meaning (NAME in upper case, dashes as underscores).
func argsToEnv(args []string) (env [][2]string, ok bool) {
	for i := 0; i < len(args); i++ {
		a := args[i]
		if !strings.HasPrefix(a, "-") {
			return nil, false
		}
		name, val, hasVal := strings.Cut(strings.TrimLeft(a, "-"), "=")
		if !hasVal {
			if boolFlags[name] {
				val = "true"
			} else {
				if i+1 >= len(args) {
					return nil, false
				}
				i++
				val = args[i]
			}
		}
		env = append(env, [2]string{strings.ToUpper(strings.ReplaceAll(name, "-", "_")), val})
	}
	return env, true
}

package harness

import (
	"fmt"
	"strings"

	"pgregory.net/rapid"
)

func init() {
	register(&CheckDef{ID: "C03", Level: "exploration", Engine: "A", Draw: drawC03,
		Rule: "1-3 raw-frame HTTP/2 clients, each sending a generated legal session: SETTINGS of any content (unknown / duplicate ids, empty), 0-n WINDOW_UPDATE (between requests 40% of them on an earlier stream, open or closed), PRIORITY on any stream, HEADERS with/without priority, 7 pseudo-header orders, header blocks cut into CONTINUATION frames, request bodies and trailers, PING / unknown frame types in between, further SETTINGS / WINDOW_UPDATE / PRIORITY between and after requests; frames grouped into TLS writes by draw and delivered by the controller; -max-h2-priority-frames in {0,1,k-1,k,k+1,default,2^63,2^64-1}; 1%: 9990-10030 PRIORITY frames ahead of the requests under a limit of 10010 / 20000 / 2^30; plus an HTTP/1.1 client in the same world. Oracle: header in { fingerprint(prefix j) : own HEADERS <= j <= frames written before the back-end saw the request }. Non-trivial: at least one request reached the back-end. Distinct: distinct controller action-label sequences."})
}

type c03Aux struct {
	Scripts map[int]*H2Script // client index -> script
	N       int               // priority limit (-1 unlimited)
}

func drawPrioLimit(t *rapid.T, k int) (args []string, n int) {
	switch rapid.IntRange(0, 8).Draw(t, "limit") {
	case 7:
		// no limit in effect: the largest values the flag accepts (what a library user's
		// math.MaxUint amounts to; wave 12, C03-u)
		return []string{"-max-h2-priority-frames", "18446744073709551615"}, -1
	case 8:
		return []string{"-max-h2-priority-frames=9223372036854775808"}, -1
	case 0:
		return nil, 10000
	case 1:
		return []string{"-max-h2-priority-frames", "0"}, 0
	case 2:
		return []string{"-max-h2-priority-frames", "1"}, 1
	case 3:
		if k > 1 {
			return []string{"-max-h2-priority-frames", fmt.Sprint(k - 1)}, k - 1
		}
		return nil, 10000
	case 4:
		return []string{"-max-h2-priority-frames", fmt.Sprint(k)}, k
	case 5:
		return []string{"-max-h2-priority-frames", fmt.Sprint(k + 1)}, k + 1
	}
	return []string{"-max-h2-priority-frames=2"}, 2
}

func drawC03(t *rapid.T) *Case {
	p := &Plan{Check: "C03"}
	aux := &c03Aux{Scripts: map[int]*H2Script{}}
	n := rapid.IntRange(1, 3).Draw(t, "nclients")
	var metas []*ClientMeta
	maxPrio := 0
	hugeLimit := 0
	for ci := 0; ci < n; ci++ {
		if ci > 0 && drawBool(t, "h1client", 35) {
			// a connection that did not negotiate HTTP/2: ALPN http/1.1, or no ALPN at all
			np := []string{"h1", "none"}[rapid.IntRange(0, 1).Draw(t, "nonh2proto")]
			hello := DrawHello(t, HelloOpts{Proto: np})
			cp := &ClientPlan{ID: ci, Addr: drawAddr(t, ci), Hello: hello}
			r := ReqSpec{Tag: fmt.Sprintf("c%d-r0", ci), Method: "GET", Path: "/h1", Host: "h1.verif.test"}
			cp.Steps = []Step{{Kind: "connect"}, {Kind: "h1req", Pieces: [][]byte{r.H1()}, Tag: r.Tag}, {Kind: "close"}}
			p.Clients = append(p.Clients, cp)
			metas = append(metas, &ClientMeta{Proto: "h1", Reqs: []ReqSpec{r}})
			continue
		}
		hello := DrawHello(t, HelloOpts{Proto: "h2"})
		burst := 0
		if ci == 0 && drawBool(t, "hugeprio", 1) {
			// more priority entries than the default limit of the flag, under a larger limit:
			// "cut to the first N" holds for every N, not only below 10000
			burst = rapid.IntRange(9990, 10030).Draw(t, "hugeprion")
			hugeLimit = []int{20000, 10010, 1 << 30}[rapid.IntRange(0, 2).Draw(t, "hugelimit")]
		}
		sc := DrawH2Script(t, H2GenOpts{ClientID: ci, MaxReqs: 4, Bodies: true, ExtraMax: 3, TailFrames: true, PrioBurst: burst})
		cp := &ClientPlan{ID: ci, Addr: drawAddr(t, ci), Hello: hello, Steps: sc.Steps(true)}
		if drawBool(t, "seg", 30) {
			cp.Seg = SegPlan{Profile: "rand"}
		}
		p.Clients = append(p.Clients, cp)
		m := &ClientMeta{Proto: "h2"}
		for _, r := range sc.Reqs {
			m.Reqs = append(m.Reqs, r.Spec)
		}
		metas = append(metas, m)
		aux.Scripts[ci] = sc
		if sc.NPrio > maxPrio {
			maxPrio = sc.NPrio
		}
	}
	p.Args, aux.N = drawPrioLimit(t, maxPrio)
	if hugeLimit > 0 {
		p.Args, aux.N = []string{"-max-h2-priority-frames", fmt.Sprint(hugeLimit)}, hugeLimit
	}
	p.YieldInjector = drawBool(t, "yield", 50)
	p.Fences = drawBool(t, "fences", 30)
	p.Tape, p.Tail = drawTape(t, 96)
	c := &Case{Plan: p, Metas: metas, Oracle: oracleC03, Aux: aux}
	var sb strings.Builder
	fmt.Fprintf(&sb, "limit=%d yield=%v fences=%v", aux.N, p.YieldInjector, p.Fences)
	for ci, sc := range aux.Scripts {
		fmt.Fprintf(&sb, " | c%d:", ci)
		for gi, g := range sc.Groups {
			fmt.Fprintf(&sb, " write%d[", gi)
			for i, f := range g {
				if i > 0 {
					sb.WriteString("; ")
				}
				sb.WriteString(f.String())
			}
			sb.WriteString("]")
		}
	}
	c.Summary = sb.String()
	return c
}

// writtenEvents: number of script events written by client cl at or before controller step s.
func writtenEvents(cl *Client, sc *H2Script, s int) int {
	groups := 0
	for _, ws := range cl.WriteSteps {
		if ws <= s {
			groups++
		}
	}
	n := 0
	for _, e := range sc.Events {
		if e.WriteIdx < groups {
			n++
		}
	}
	return n
}

func checkH2FP(w *World, c *Case, scripts map[int]*H2Script, limit int) {
	by := w.ReqsByTag()
	for ci, m := range c.Metas {
		cl := w.Clients[ci]
		sc := scripts[ci]
		if sc == nil {
			// not an HTTP/2 connection: the proxy must not produce an HTTP/2 fingerprint
			for _, r := range m.Reqs {
				for _, br := range by[r.Tag] {
					if got := br.Header.Values("X-Http2-Fingerprint"); len(got) != 0 {
						w.Violate("h2fp_on_h1", "h2fp_on_h1", "%s (%s): X-HTTP2-Fingerprint %q on a connection that did not negotiate HTTP/2", r.Tag, protoOf(w, ci), got)
					}
				}
			}
			continue
		}
		for _, rq := range sc.Reqs {
			for _, br := range by[rq.Spec.Tag] {
				got := br.Header.Values("X-Http2-Fingerprint")
				if len(got) != 1 {
					w.Violate("h2fp_count", "h2fp_count", "%s: X-HTTP2-Fingerprint = %q, want exactly one value", rq.Spec.Tag, got)
					continue
				}
				hi := writtenEvents(cl, sc, br.Step)
				if hi > rq.EventIdx {
					w.Probe("later_frames_admissible")
				}
				ok, why := MatchAnyPrefix(sc.Events, rq.EventIdx, hi, got[0], limit)
				if !ok {
					w.Violate("h2fp_mismatch", "h2fp_mismatch", "%s: X-HTTP2-Fingerprint = %q matches no admissible prefix [%d..%d] of the client's frame history (first reason: %s)", rq.Spec.Tag, got[0], rq.EventIdx, hi, why)
				} else if ok2, _ := MatchAnyPrefix(sc.Events, rq.EventIdx, rq.EventIdx, got[0], limit); !ok2 {
					w.Probe("fingerprint_reflects_later_frames")
				}
			}
		}
	}
}

func oracleC03(w *World, c *Case) {
	aux := c.Aux.(*c03Aux)
	checkH2FP(w, c, aux.Scripts, aux.N)
}

// oracleC07: the snapshot oracle, and "requests are handled while further frames keep
// arriving": every request of the (legal) session was forwarded once and answered.
func oracleC07(w *World, c *Case) {
	oracleC03(w, c)
	by := w.ReqsByTag()
	cl := w.Clients[0]
	if c.Aux.(*c03Aux).Scripts[0].BadSettings {
		// the session ends in a connection error: what was in flight need not be answered
		w.Probe("session_ended_by_rejected_settings")
		return
	}
	for _, rq := range c.Aux.(*c03Aux).Scripts[0].Reqs {
		st := cl.Streams[rq.Stream]
		if len(by[rq.Spec.Tag]) != 1 || st == nil || !st.Ended {
			w.Violate("request_not_handled", "request_not_handled", "%s (stream %d): forwarded %d times, response complete=%v at the end of the run (client step errors %v, GOAWAY %v)", rq.Spec.Tag, rq.Stream, len(by[rq.Spec.Tag]), st != nil && st.Ended, cl.StepErrs, cl.GoAway != nil)
			return
		}
	}
	w.Probe("every_request_handled")
}

// ----------------------------------------------------------------- C07

func init() {
	register(&CheckDef{ID: "C07", Level: "exploration", Engine: "A", Draw: drawC07,
		Rule: "one HTTP/2 connection, 2-8 concurrently open streams whose handlers are parked by a yielding header injector placed before the real HTTP/2 injector while the controller delivers further SETTINGS / WINDOW_UPDATE / PRIORITY / HEADERS frames (one TLS write per frame; 15%: the last frame is a SETTINGS frame with valid entries around one the server rejects, so that parked requests are forwarded during the GOAWAY grace period) and releases handlers in any order; snapshot oracle: each request's fingerprint equals the fingerprint of one prefix of the frame history between its own HEADERS and its forwarding (single sequential writer, so linearizability of the reads reduces to interval membership); every request of the session is forwarded exactly once and answered completely (a lock cycle between capture and Marshal shows up here: lock waits count as blocked in the worker's runtime). Race mode (-race build): the same sessions coalesced into one TLS write with no fence, so that capture and Marshal fall into one quantum where the race detector sees them. Non-trivial: >= 2 requests reached the back-end. Distinct: distinct controller action-label sequences."})
}

func drawC07(t *rapid.T) *Case {
	p := &Plan{Check: "C07"}
	race := raceMode()
	aux := &c03Aux{Scripts: map[int]*H2Script{}}
	hello := DrawHello(t, HelloOpts{Proto: "h2"})
	sc := DrawH2Script(t, H2GenOpts{ClientID: 0, MaxReqs: 8, Bodies: false, ExtraMax: 3, TailFrames: true, BadSettingsTail: !race, OneGroupPerFrame: !race})
	if race {
		// coalesce everything into one write
		var all []Frame
		for _, g := range sc.Groups {
			all = append(all, g...)
		}
		sc.Groups = [][]Frame{all}
		for i := range sc.Events {
			sc.Events[i].WriteIdx = 0
		}
	}
	cp := &ClientPlan{ID: 0, Addr: drawAddr(t, 0), Hello: hello, Steps: sc.Steps(true)}
	p.Clients = []*ClientPlan{cp}
	m := &ClientMeta{Proto: "h2"}
	for _, r := range sc.Reqs {
		m.Reqs = append(m.Reqs, r.Spec)
	}
	aux.Scripts[0] = sc
	p.Args, aux.N = drawPrioLimit(t, sc.NPrio)
	p.YieldInjector = !race
	p.Fences = !race && drawBool(t, "fences", 50)
	// park the serve loop between the critical sections of one frame's capture
	p.CaptureFences = !race && drawBool(t, "capturefences", 60)
	p.Args = append(p.Args, "-reverse-proxy-flush-interval", "0s")
	p.Tape, p.Tail = drawTape(t, 128)
	c := &Case{Plan: p, Metas: []*ClientMeta{m}, Oracle: oracleC07, Aux: aux}
	c.Nontrivial = func(w *World, c *Case) bool { return len(w.BackReqs) >= 2 }
	var sb strings.Builder
	fmt.Fprintf(&sb, "race=%v limit=%d fences=%v | c0:", race, aux.N, p.Fences)
	for gi, g := range sc.Groups {
		fmt.Fprintf(&sb, " write%d[", gi)
		for i, f := range g {
			if i > 0 {
				sb.WriteString("; ")
			}
			sb.WriteString(f.String())
		}
		sb.WriteString("]")
	}
	c.Summary = sb.String()
	return c
}

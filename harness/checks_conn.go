package harness

import (
	"fmt"
	"sort"
	"strings"

	dto "github.com/prometheus/client_model/go"
	fingerproxy "github.com/wi1dcard/fingerproxy"
	"pgregory.net/rapid"
)

// Connection kinds shared by C16 / C10 / C11 / C17 workloads.
var connKinds = []string{"h2ok", "h1ok", "noneok", "plainhttp", "garbage", "stall_close", "stall_wait", "abort_handshake", "abort_after_handshake", "abort_mid_request", "h1idle_close", "h1upgrade"}

// DrawConnClient builds a client of the given kind.  Returns plan and meta.
func DrawConnClient(t *rapid.T, ci int, kind string, hsTimeout int) (*ClientPlan, *ClientMeta) {
	cp := &ClientPlan{ID: ci, Addr: fmt.Sprintf("198.51.100.%d:%d", 10+ci, 32000+ci)}
	m := &ClientMeta{Kind: kind}
	req := func(ri int) ReqSpec {
		return ReqSpec{Tag: fmt.Sprintf("c%d-r%d", ci, ri), Method: "GET", Path: fmt.Sprintf("/k%d", ri), Host: fmt.Sprintf("h%d.verif.test", ci)}
	}
	switch kind {
	case "h2ok", "abort_mid_request":
		m.Proto = "h2"
		if kind == "abort_mid_request" && drawBool(t, "amr_h1", 50) {
			m.Proto = "h1"
		}
		cp.Hello = DrawHello(t, HelloOpts{Proto: m.Proto})
		if m.Proto == "h2" {
			sc := DrawH2Script(t, H2GenOpts{ClientID: ci, MaxReqs: 2, ExtraMax: 1, Bodies: true})
			m.Script = sc
			for _, r := range sc.Reqs {
				m.Reqs = append(m.Reqs, r.Spec)
			}
			cp.Steps = sc.Steps(kind == "h2ok")
			if kind == "abort_mid_request" {
				cp.Steps[len(cp.Steps)-1] = Step{Kind: "reset"}
			}
		} else {
			r := req(0)
			m.Reqs = append(m.Reqs, r)
			cp.Steps = []Step{{Kind: "connect"}, {Kind: "write", Pieces: [][]byte{r.H1()}}, {Kind: "reset"}}
		}
	case "h1ok", "noneok", "h1idle_close":
		m.Proto = "h1"
		if kind == "noneok" {
			m.Proto = "none"
		}
		cp.Hello = DrawHello(t, HelloOpts{Proto: m.Proto, AllowNoExt: true})
		cp.Steps = []Step{{Kind: "connect"}}
		n := rapid.IntRange(1, 2).Draw(t, "nreq")
		for ri := 0; ri < n; ri++ {
			r := req(ri)
			m.Reqs = append(m.Reqs, r)
			cp.Steps = append(cp.Steps, Step{Kind: "h1req", Pieces: [][]byte{r.H1()}, Tag: r.Tag})
		}
		if kind == "h1idle_close" {
			// stay idle: the proxy has to close the connection (idle timeout / shutdown)
			cp.Steps = append(cp.Steps, Step{Kind: "readeof"})
		}
		cp.Steps = append(cp.Steps, Step{Kind: "close"})
	case "h1upgrade":
		// a protocol upgrade through the reverse proxy (WebSocket style): 101, then a tunnel
		// of opaque bytes that ends by the client leaving (close / reset) or the back-end hanging up
		m.Proto = "h1"
		cp.Hello = DrawHello(t, HelloOpts{Proto: "h1"})
		cp.Steps = []Step{{Kind: "connect"}}
		ri := 0
		if drawBool(t, "up_after_req", 40) {
			r := req(ri)
			ri++
			m.Reqs = append(m.Reqs, r)
			cp.Steps = append(cp.Steps, Step{Kind: "h1req", Pieces: [][]byte{r.H1()}, Tag: r.Tag})
		}
		up := req(ri)
		up.Header = [][2]string{{"Connection", "Upgrade"}, {"Upgrade", "verif-echo"}}
		nmsg := rapid.IntRange(0, 3).Draw(t, "up_msgs")
		end := rapid.IntRange(0, 2).Draw(t, "up_end")
		total := 0
		var msgs [][]byte
		for k := 0; k < nmsg; k++ {
			b := []byte(fmt.Sprintf("tunnel-%d-%d:%s", ci, k, strings.Repeat("x", rapid.IntRange(0, 3000).Draw(t, "up_len"))))
			msgs = append(msgs, b)
			total += len(b)
		}
		if end == 2 && total > 0 {
			up.Header = append(up.Header, [2]string{"X-Hangup", fmt.Sprint(total)})
		}
		m.Reqs = append(m.Reqs, up)
		cp.Steps = append(cp.Steps, Step{Kind: "h1req", Pieces: [][]byte{up.H1()}, Tag: up.Tag})
		for _, b := range msgs {
			cp.Steps = append(cp.Steps, Step{Kind: "tunnel", Pieces: [][]byte{b}})
		}
		switch {
		case end == 2 && total > 0:
			cp.Steps = append(cp.Steps, Step{Kind: "readeof"}, Step{Kind: "close"})
		case end == 1:
			cp.Steps = append(cp.Steps, Step{Kind: "reset"})
		default:
			cp.Steps = append(cp.Steps, Step{Kind: "close"})
		}
	case "plainhttp":
		cp.Raw = true
		cp.Steps = []Step{{Kind: "connect"}, {Kind: "tcpwrite", Pieces: [][]byte{[]byte("GET / HTTP/1.1\r\nHost: plain.verif.test\r\n\r\n")}}, {Kind: "readeof"}, {Kind: "close"}}
	case "garbage":
		cp.Raw = true
		n := rapid.IntRange(1, 300).Draw(t, "glen")
		b := rapid.SliceOfN(rapid.Byte(), n, n).Draw(t, "garbage")
		if drawBool(t, "looksTLS", 50) && len(b) >= 5 {
			b[0], b[1], b[2] = 0x16, 0x03, 0x01
		}
		cp.Steps = []Step{{Kind: "connect"}, {Kind: "tcpwrite", Pieces: [][]byte{b}}}
		if hsTimeout > 0 && drawBool(t, "gwait", 50) {
			cp.Steps = append(cp.Steps, Step{Kind: "readeof"})
		}
		cp.Steps = append(cp.Steps, Step{Kind: "close"})
	case "stall_close":
		// connects, sends nothing, goes away later
		cp.Raw = true
		cp.Steps = []Step{{Kind: "connect"}, {Kind: []string{"close", "reset"}[rapid.IntRange(0, 1).Draw(t, "how")]}}
	case "stall_wait":
		// connects, sends nothing, waits for the proxy to hang up (handshake timeout)
		cp.Raw = true
		cp.Steps = []Step{{Kind: "connect"}, {Kind: "readeof"}, {Kind: "close"}}
	case "abort_handshake":
		m.Proto = []string{"h2", "h1"}[rapid.IntRange(0, 1).Draw(t, "proto")]
		cp.Hello = DrawHello(t, HelloOpts{Proto: m.Proto})
		cp.Steps = []Step{{Kind: "connect_bg"}, {Kind: []string{"close", "reset"}[rapid.IntRange(0, 1).Draw(t, "how")]}}
	case "abort_after_handshake":
		m.Proto = []string{"h2", "h1", "none"}[rapid.IntRange(0, 2).Draw(t, "proto")]
		cp.Hello = DrawHello(t, HelloOpts{Proto: m.Proto})
		cp.Steps = []Step{{Kind: "connect"}, {Kind: []string{"close", "reset"}[rapid.IntRange(0, 1).Draw(t, "how")]}}
	default:
		panic("unknown conn kind " + kind)
	}
	if cp.Hello != nil && drawBool(t, "seg", 20) {
		cp.Seg = drawSeg(t)
	}
	return cp, m
}

func drawTimeoutArgs(t *rapid.T) (args []string, hs, idle int) {
	hs = []int{0, 1, 10, 10}[rapid.IntRange(0, 3).Draw(t, "hs_to")]
	idle = []int{2, 30, 180}[rapid.IntRange(0, 2).Draw(t, "idle_to")]
	if hs != 10 || drawBool(t, "hs_explicit", 50) {
		args = append(args, "-timeout-tls-handshake", fmt.Sprintf("%ds", hs))
	}
	if idle != 180 || drawBool(t, "idle_explicit", 50) {
		args = append(args, "-timeout-http-idle", fmt.Sprintf("%ds", idle))
	}
	return
}

// ----------------------------------------------------------------- C16

func init() {
	register(&CheckDef{ID: "C16", Level: "exploration", Engine: "A", Draw: drawC16,
		Rule: "1-8 concurrent connections drawn from {h2, http/1.1, no ALPN, plain HTTP on the TLS port, garbage bytes, silent stall then close/reset, stall until the handshake timeout, abort during the handshake (close / reset at a controller-chosen moment), abort right after the handshake, abort mid-request, idle keep-alive closed by the proxy, HTTP/1.1 protocol upgrade with a tunnel ended by either side}; in 20% of the runs the proxy is shut down (context cancelled) at a random controller step; handshake timeout in {off,1s,10s}, idle timeout in {2s,30s,180s} through the real flags; completion order chosen by the controller. Oracle: fingerproxy_requests_total gathered from the registry = multiset of (ok, protocol) implied by the outcomes (connections whose server-side handshake result the client cannot know are admitted either way), sum = accepted connections at the end, and sum <= connections already closed by the server at intermediate quiescent points. Non-trivial: >= 2 connections of different outcome. Distinct: distinct controller action-label sequences."})
}

type c16Aux struct{ Kinds []string }

func drawC16(t *rapid.T) *Case {
	p := &Plan{Check: "C16"}
	aux := &c16Aux{}
	args, hs, _ := drawTimeoutArgs(t)
	p.Args = args
	n := rapid.IntRange(1, 8).Draw(t, "nconn")
	var metas []*ClientMeta
	for ci := 0; ci < n; ci++ {
		kind := connKinds[rapid.IntRange(0, len(connKinds)-1).Draw(t, "kind")]
		if kind == "stall_wait" && hs == 0 {
			kind = "stall_close" // without a handshake timeout the proxy never hangs up
		}
		cp, m := DrawConnClient(t, ci, kind, hs)
		p.Clients = append(p.Clients, cp)
		metas = append(metas, m)
		aux.Kinds = append(aux.Kinds, kind)
	}
	p.Fences = drawBool(t, "fences", 30)
	if drawBool(t, "shutdown", 20) {
		// the proxy is shut down (context cancelled) while the connections are in whatever
		// state they have reached: every accepted connection still counts exactly once
		p.CancelAtStep = rapid.IntRange(1, 150).Draw(t, "cancelat")
	}
	p.Tape, p.Tail = drawTape(t, 96)
	c := &Case{Plan: p, Metas: metas, Oracle: oracleC16, Aux: aux}
	c.Summary = fmt.Sprintf("args=%v cancelAt=%d kinds=%v", p.Args, p.CancelAtStep, aux.Kinds)
	c.Nontrivial = func(w *World, c *Case) bool {
		got := GatherRequestsTotal()
		return len(got) >= 2
	}
	return c
}

// GatherRequestsTotal reads fingerproxy_requests_total from the registry.
func GatherRequestsTotal() map[[2]string]int {
	out := map[[2]string]int{}
	mfs, err := fingerproxy.PrometheusRegistry.Gather()
	if err != nil {
		return out
	}
	for _, mf := range mfs {
		if mf.GetName() != "fingerproxy_requests_total" {
			continue
		}
		for _, m := range mf.GetMetric() {
			out[labelsOf(m)] += int(m.GetCounter().GetValue())
		}
	}
	return out
}

func labelsOf(m *dto.Metric) [2]string {
	var k [2]string
	for _, l := range m.GetLabel() {
		switch l.GetName() {
		case "ok":
			k[0] = l.GetValue()
		case "negotiated_protocol":
			k[1] = l.GetValue()
		}
	}
	return k
}

func sumCounts(m map[[2]string]int) int {
	s := 0
	for _, v := range m {
		s += v
	}
	return s
}

func serverClosedConns(w *World) int {
	n := 0
	w.Net.mu.Lock()
	defer w.Net.mu.Unlock()
	for _, name := range w.Net.names {
		if strings.HasPrefix(name, "c") && w.Net.pairs[name].B.closed {
			n++
		}
	}
	return n
}

// answered: the server has sent at least one response head on the connection.
func answered(cl *Client) bool {
	for _, r := range cl.Resps {
		if r.Status > 0 {
			return true
		}
	}
	return false
}

func oracleC16(w *World, c *Case) {
	// intermediate invariant at this quiescent point
	if got, closed := sumCounts(GatherRequestsTotal()), serverClosedConns(w); got > closed {
		w.Violate("counted_early", "counted_early", "requests_total sums to %d while only %d accepted connections have ended", got, closed)
	}
	// let every connection end: GOAWAY close timers, handshake timeouts, Shutdown polling
	w.SettleTime(30)
	got := GatherRequestsTotal()
	def := map[[2]string]int{}
	amb := map[[2]string]int{}
	ambTotal := 0
	for ci := range c.Metas {
		cl := w.Clients[ci]
		if cl.conn == nil {
			continue
		}
		if !cl.conn.pair.B.Closed() {
			// still open on the server side: must not have been counted yet
			w.Probe("connection_still_open_at_end")
			continue
		}
		offered := map[string]string{"h2": "h2", "h1": "http/1.1", "none": "", "": ""}[c.Metas[ci].Proto]
		switch {
		case cl.Plan.Raw:
			def[[2]string{"0", ""}]++
		case cl.HandshakeOK && ((cl.TLSVersion != 0x0304 && w.Plan.CancelAtStep == 0) || answered(cl) || len(cl.Recv) > 0):
			// TLS 1.2: the client's handshake returns only after the server's Finished;
			// (unless a shutdown interrupts it: HandshakeContext reports the cancellation even
			// when it falls between the last flight and its return);
			// TLS 1.3: proven complete once the server answered on the connection
			def[[2]string{"1", cl.NegProto}]++
		default:
			// the client cannot know whether the server side of the handshake
			// completed (its Finished may or may not have arrived before the abort)
			amb[[2]string{"1", offered}]++
			ambTotal++
		}
	}
	accepted := serverClosedConns(w)
	desc := func() string {
		var ks []string
		for k, v := range got {
			ks = append(ks, fmt.Sprintf("{ok=%s,proto=%q}=%d", k[0], k[1], v))
		}
		sort.Strings(ks)
		return fmt.Sprintf("got %v; definite %v ambiguous %v accepted=%d kinds=%v", ks, def, amb, accepted, c.Aux.(*c16Aux).Kinds)
	}
	if s := sumCounts(got); s != accepted {
		w.Violate("sum", "sum", "requests_total sums to %d, %d accepted connections have ended: %s", s, accepted, desc())
		return
	}
	zeroAmb := 0
	for k, v := range got {
		lo := def[k]
		hi := def[k] + amb[k]
		if k == [2]string{"0", ""} {
			hi = def[k] + ambTotal
		}
		if v < lo || v > hi {
			w.Violate("labels", "labels", "requests_total%v = %d outside [%d,%d]: %s", k, v, lo, hi, desc())
			return
		}
		if k == [2]string{"0", ""} {
			zeroAmb = v - lo
		}
	}
	for k, v := range def {
		if got[k] < v {
			w.Violate("labels", "labels", "requests_total%v = %d, at least %d expected: %s", k, got[k], v, desc())
			return
		}
	}
	_ = zeroAmb
}

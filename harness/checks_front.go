package harness

import (
	"fmt"
	"strings"

	"pgregory.net/rapid"
)

const ruleFront = " Schedule (which in-flight direction is delivered next, which client proceeds, segmentation of the first records) decided by the seeded controller. Non-trivial: at least one request reached the back-end. Distinct: distinct hashes of the controller's action-label sequence."

func init() {
	register(&CheckDef{ID: "C01", Level: "exploration", Engine: "A", Draw: drawC01,
		Rule: "1-5 concurrent clients with generated ClientHelloSpecs (cipher/extension/group/point lists of every shape: GREASE first/last/only, unknown code points, >99 entries, hello without extensions via RSA key exchange, TLS 1.2/1.3, SNI of length 1..300, with/without ALPN), ALPN outcome h2 / http/1.1 / none, 1-3 requests per connection, first record delivered 1 byte at a time / cut inside the 5-byte header / at random cuts; default or extended injector set." + ruleFront})
	register(&CheckDef{ID: "C02", Level: "exploration", Engine: "A", Draw: drawC02,
		Rule: "as C01, plus twin clients whose hello differs from their sibling only by a permutation of cipher suites / extensions and by inserted or altered GREASE values (ciphers, extensions, groups, signature algorithms, versions): twins must receive equal X-JA4-Fingerprint values, and every value must match the independent reference (refhello.JA4) and have the form a_b_c." + ruleFront})
	register(&CheckDef{ID: "C05", Level: "exploration", Engine: "A", Draw: drawC05,
		Rule: "1-4 clients on both protocols; every request carries 0-3 client-chosen values (unique tokens) under each configured fingerprint header name, in random letter case on HTTP/1.1, repeated or not; 12%: an injector ahead of the default ones panics at its k-th call (a request that is forwarded all the same carries nothing the client sent); injector set = default three plus 0-2 custom injectors whose outcome is value / empty / error." + ruleFront})
	register(&CheckDef{ID: "C15", Level: "exploration", Engine: "A", Draw: drawC15,
		Rule: "1-3 clients, both protocols, -enable-kubernetes-probe true/false through the real flag wiring; User-Agent absent / empty / exact prefix / infix / suffix / case variants / two lines / the text in another header; methods GET/HEAD/POST, several paths; 15%: the proxy is shut down at a drawn step while the connections exist (a probe is still answered 200 OK, any other request is forwarded or fails with a gateway error, never answered locally)." + ruleFront})
}

func sniKnownSig(rec []byte) string {
	h, err := ParseHelloRecord(rec)
	if err != nil || !h.HasSNI {
		return ""
	}
	l := h.SNIListLen
	if l&0xff < l>>8 {
		return "sni_list_len_lowbyte_lt_highbyte"
	}
	return ""
}

func drawInjectorSet(t *rapid.T, p *Plan) {
	if drawBool(t, "extrainj", 40) {
		n := rapid.IntRange(1, 2).Draw(t, "ninj")
		for i := 0; i < n; i++ {
			mode := []string{"value", "empty", "error"}[rapid.IntRange(0, 2).Draw(t, "injmode")]
			val := fmt.Sprintf("custom-%d", i)
			if drawBool(t, "injlong", 25) {
				// a long value (a raw-hello style injector): around a page, around 8 KiB, 20 kB
				val += strings.Repeat("v", []int{1000, 4090, 8180, 8192, 8200, 20000}[rapid.IntRange(0, 5).Draw(t, "injlen")])
			}
			p.ExtraInjectors = append(p.ExtraInjectors, ExtraInjector{Name: fmt.Sprintf("X-Custom-%d", i), Mode: mode, Value: val})
		}
		p.ExtraInjectorsLate = drawBool(t, "injlate", 40)
	}
}

func drawC01(t *rapid.T) *Case {
	p := &Plan{Check: "C01"}
	p.Args = drawCommonArgs(t)
	drawInjectorSet(t, p)
	ho := HelloOpts{AllowNoExt: true}
	if drawBool(t, "longsni", 15) {
		ho.SNILen = rapid.IntRange(200, 300).Draw(t, "snilen")
		if drawBool(t, "sni253", 50) {
			ho.SNILen = 253
		}
	}
	cps, metas := DrawFront(t, FrontOpts{MinClients: 1, MaxClients: 5, MaxReqs: 3, Segment: true, Hello: ho, Sequential: drawBool(t, "seq", 50), HeaderGen: nominateGen(15)})
	cps, metas = addResumers(t, cps, metas)
	p.Clients = cps
	if drawBool(t, "timedout", 10) {
		// connections that run into the handshake timeout before / next to the real ones
		metas = addTimedOutHandshakes(t, p, metas, len(cps))
	}
	p.Tape, p.Tail = drawTape(t, 64)
	c := &Case{Plan: p, Metas: metas, Oracle: oracleC01}
	c.Summary = defaultSummary(p, metas)
	return c
}

// addResumers appends, for some clients, a second connection of the same client that
// resumes the TLS session (pre_shared_key in TLS 1.3, session ticket in TLS 1.2): same
// hello plus the extension utls fills in from the shared session cache.
func addResumers(t *rapid.T, cps []*ClientPlan, metas []*ClientMeta) ([]*ClientPlan, []*ClientMeta) {
	n := len(cps)
	for i := 0; i < n; i++ {
		h := cps[i].Hello
		if h == nil || h.NoExtensions || !drawBool(t, "resume", 20) {
			continue
		}
		hasPSK := false
		for _, e := range h.Exts {
			if e.Kind == "fakepsk" || e.Kind == "realpsk" {
				hasPSK = true
			}
		}
		if hasPSK || h.SNI() == "" {
			continue
		}
		id := len(cps)
		cps[i].SessionGroup = i + 1
		nh := *h
		nh.Exts = append([]ExtPlan(nil), h.Exts...)
		hasTicket, hasModes := false, false
		for _, e := range nh.Exts {
			if e.Kind == "ticket" {
				hasTicket = true
			}
			if e.Kind == "pskmodes" {
				hasModes = true
			}
		}
		if !hasTicket {
			nh.Exts = append(nh.Exts, ExtPlan{Kind: "ticket"})
			cps[i].Hello.Exts = append(cps[i].Hello.Exts, ExtPlan{Kind: "ticket"})
		}
		if nh.VersMax == 0x0304 {
			if !hasModes {
				nh.Exts = append(nh.Exts, ExtPlan{Kind: "pskmodes", U8: []uint8{1}})
			}
			nh.Exts = append(nh.Exts, ExtPlan{Kind: "realpsk"})
		}
		tw := &ClientPlan{ID: id, Addr: cps[i].Addr, Hello: &nh, SessionGroup: i + 1, StartAfterDone: []int{i}}
		m := &ClientMeta{Proto: metas[i].Proto, Preamble: metas[i].Preamble}
		r := ReqSpec{Tag: fmt.Sprintf("c%d-r0", id), Method: "GET", Path: "/resumed", Host: "resume.verif.test"}
		m.Reqs = []ReqSpec{r}
		RebuildFrontSteps(tw, m)
		cps = append(cps, tw)
		metas = append(metas, m)
	}
	return cps, metas
}

func oracleC01(w *World, c *Case) {
	by := w.ReqsByTag()
	for ci, m := range c.Metas {
		cl := w.Clients[ci]
		if !cl.HandshakeOK {
			continue
		}
		rec := cl.HelloRecord()
		h, err := ParseHelloRecord(rec)
		if err != nil {
			w.Violate("harness", "harness", "reference parser cannot parse the hello of c%d: %v", ci, err)
			continue
		}
		want := h.JA3()
		for _, r := range m.Reqs {
			for _, br := range by[r.Tag] {
				got := br.Header.Values("X-Ja3-Fingerprint")
				if len(got) == 1 && got[0] == want {
					continue
				}
				sig := "ja3_mismatch"
				if len(got) == 0 {
					sig = "ja3_missing"
					if k := sniKnownSig(rec); k != "" {
						sig = k
					}
				}
				w.Violate(sig, sig, "%s (%s): X-JA3-Fingerprint = %q, want %q = md5(%q)", r.Tag, protoOf(w, ci), got, want, h.JA3String())
			}
		}
	}
}

// twin makes a hello that must have the same JA4: permuted ciphers and
// extensions, GREASE inserted / altered.
func twinHello(t *rapid.T, h *HelloPlan) *HelloPlan {
	n := &HelloPlan{VersMin: h.VersMin, VersMax: h.VersMax, LegacyVers: h.LegacyVers, NoExtensions: h.NoExtensions, Compression: h.Compression}
	n.Ciphers = append([]uint16(nil), h.Ciphers...)
	shuffle(t, "tw_c", n.Ciphers)
	for i, c := range n.Ciphers {
		if isGREASE(c) {
			n.Ciphers[i] = drawGrease(t, "tw_cg")
		}
	}
	if drawBool(t, "tw_addcg", 60) {
		n.Ciphers = insertAt(n.Ciphers, rapid.IntRange(0, len(n.Ciphers)).Draw(t, "tw_cgp"), drawGrease(t, "tw_cg2"))
	}
	hasGreaseExt := false
	for _, e := range h.Exts {
		ne := e
		ne.U16 = append([]uint16(nil), e.U16...)
		switch e.Kind {
		case "grease":
			hasGreaseExt = true
		case "groups", "sigalgs", "versions":
			// altering / adding GREASE inside these lists must not matter
			for i, v := range ne.U16 {
				if isGREASE(v) {
					ne.U16[i] = drawGrease(t, "tw_lg")
				}
			}
			if drawBool(t, "tw_addlg", 50) {
				ne.U16 = insertAt(ne.U16, rapid.IntRange(0, len(ne.U16)).Draw(t, "tw_lgp"), drawGrease(t, "tw_lg2"))
			}
		}
		n.Exts = append(n.Exts, ne)
	}
	shuffle(t, "tw_x", n.Exts)
	if !h.NoExtensions && !hasGreaseExt && drawBool(t, "tw_addxg", 60) {
		n.Exts = insertAt(n.Exts, rapid.IntRange(0, len(n.Exts)).Draw(t, "tw_xgp"), ExtPlan{Kind: "grease", ID: drawGrease(t, "tw_xg")})
	}
	// padding has to stay last for utls to compute it; keep relative position otherwise free
	for i, e := range n.Exts {
		if e.Kind == "padding" {
			n.Exts = append(append(n.Exts[:i:i], n.Exts[i+1:]...), e)
			break
		}
	}
	// pre_shared_key must be the last extension of a TLS 1.3 hello
	for i, e := range n.Exts {
		if e.Kind == "fakepsk" || e.Kind == "realpsk" {
			n.Exts = append(append(n.Exts[:i:i], n.Exts[i+1:]...), e)
			break
		}
	}
	return n
}

type c02Aux struct {
	Twin map[int]int // client index -> sibling index
}

func drawC02(t *rapid.T) *Case {
	p := &Plan{Check: "C02"}
	p.Args = drawCommonArgs(t)
	ho := HelloOpts{AllowNoExt: true}
	if drawBool(t, "sni253", 6) {
		// a hello the JA3 parser rejects (known finding D6) must still get its JA4
		ho.SNILen = 253
	}
	cps, metas := DrawFront(t, FrontOpts{MinClients: 1, MaxClients: 3, MaxReqs: 2, Segment: true, Hello: ho, HeaderGen: nominateGen(10)})
	cps, metas = addResumers(t, cps, metas)
	aux := &c02Aux{Twin: map[int]int{}}
	n := len(cps)
	for i := 0; i < n; i++ {
		if !drawBool(t, "twin", 70) || cps[i].SessionGroup != 0 {
			continue
		}
		id := len(cps)
		tw := *cps[i]
		tw.ID = id
		tw.Addr = drawAddr(t, id)
		tw.Hello = twinHello(t, cps[i].Hello)
		versTwin := false
		if h := cps[i].Hello; !h.NoExtensions && h.VersMax == 0x0303 && !hasExt(h, "versions") && drawBool(t, "verstwin", 40) {
			// not an equal twin but a near one: the same hello, octet for octet, with another
			// legacy_version - it must NOT get its sibling's value (judged against the
			// reference like everybody, never compared with the sibling)
			cp := *h
			cp.LegacyVers = []uint16{0x0304, 0x0305, 0x0303}[rapid.IntRange(0, 2).Draw(t, "verstwinv")]
			if cp.LegacyVers == h.LegacyVers || (cp.LegacyVers == 0x0303 && h.LegacyVers == 0) {
				cp.LegacyVers = 0x03fe
			}
			tw.Hello = &cp
			versTwin = true
		}
		tw.Steps = nil
		m := &ClientMeta{Proto: metas[i].Proto, Preamble: metas[i].Preamble}
		// same script, fresh tags
		tw.Steps = append(tw.Steps, Step{Kind: "connect"})
		if m.Proto == "h2" {
			enc := NewHEnc()
			pre := append([]byte(ClientPreface), FramesBytes(m.Preamble.Frames()...)...)
			tw.Steps = append(tw.Steps, Step{Kind: "write", Pieces: [][]byte{pre}})
			r := ReqSpec{Tag: fmt.Sprintf("c%d-r0", id), Method: "GET", Path: "/tw", Host: "tw.verif.test"}
			m.Reqs = append(m.Reqs, r)
			tw.Steps = append(tw.Steps, Step{Kind: "write", Pieces: [][]byte{FramesBytes(H2RequestFrames(enc, 1, r, nil, nil, nil, nil)...)}, Tag: r.Tag})
			tw.Steps = append(tw.Steps, Step{Kind: "h2await", Streams: []uint32{1}})
		} else {
			r := ReqSpec{Tag: fmt.Sprintf("c%d-r0", id), Method: "GET", Path: "/tw", Host: "tw.verif.test"}
			m.Reqs = append(m.Reqs, r)
			tw.Steps = append(tw.Steps, Step{Kind: "h1req", Pieces: [][]byte{r.H1()}, Tag: r.Tag})
		}
		tw.Steps = append(tw.Steps, Step{Kind: "close"})
		cps = append(cps, &tw)
		metas = append(metas, m)
		if !versTwin {
			aux.Twin[id] = i
		}
	}
	p.Clients = cps
	if drawBool(t, "timedout", 10) {
		// connections that run into the handshake timeout before / next to the real ones
		metas = addTimedOutHandshakes(t, p, metas, len(cps))
	}
	p.Tape, p.Tail = drawTape(t, 64)
	c := &Case{Plan: p, Metas: metas, Oracle: oracleC02, Aux: aux}
	c.Summary = defaultSummary(p, metas)
	return c
}

func ja4Sig(h *RefHello) string {
	for _, s := range h.SigAlgs {
		if refGREASE(s) {
			return "ja4_grease_sigalg"
		}
	}
	return "ja4_mismatch"
}

func oracleC02(w *World, c *Case) {
	by := w.ReqsByTag()
	first := map[int]string{}
	for ci, m := range c.Metas {
		cl := w.Clients[ci]
		if !cl.HandshakeOK {
			continue
		}
		rec := cl.HelloRecord()
		h, err := ParseHelloRecord(rec)
		if err != nil {
			w.Violate("harness", "harness", "reference parser cannot parse the hello of c%d: %v", ci, err)
			continue
		}
		ref := h.JA4()
		for _, r := range m.Reqs {
			for _, br := range by[r.Tag] {
				got := br.Header.Values("X-Ja4-Fingerprint")
				if len(got) == 0 && hasUtlsStrictExt(h) {
					w.Violate("ja4_missing_ext_body_rejected_by_utls", "ja4_missing_ext_body_rejected_by_utls", "%s (%s): no X-JA4-Fingerprint: %s", r.Tag, protoOf(w, ci), lastLogLine(w, "ja4"))
					continue
				}
				if len(got) != 1 {
					w.Violate("ja4_count", "ja4_count", "%s (%s): X-JA4-Fingerprint = %q, want exactly one value", r.Tag, protoOf(w, ci), got)
					continue
				}
				if ok, why := ref.Match(got[0]); !ok {
					sig := ja4Sig(h)
					w.Violate(sig, sig, "%s (%s): X-JA4-Fingerprint = %q: %s", r.Tag, protoOf(w, ci), got[0], why)
				}
				if _, seen := first[ci]; !seen {
					first[ci] = got[0]
				} else if first[ci] != got[0] {
					w.Violate("ja4_unstable", "ja4_unstable", "%s: X-JA4-Fingerprint %q differs from an earlier request of the same connection (%q)", r.Tag, got[0], first[ci])
				}
			}
		}
	}
	if aux, ok := c.Aux.(*c02Aux); ok {
		for tw, orig := range aux.Twin {
			a, okA := first[orig]
			b, okB := first[tw]
			if okA && okB && a != b {
				sig := "ja4_not_invariant"
				if h, err := ParseHelloRecord(w.Clients[tw].HelloRecord()); err == nil && ja4Sig(h) == "ja4_grease_sigalg" {
					sig = "ja4_grease_sigalg"
				} else if h, err := ParseHelloRecord(w.Clients[orig].HelloRecord()); err == nil && ja4Sig(h) == "ja4_grease_sigalg" {
					sig = "ja4_grease_sigalg"
				}
				w.Violate(sig, sig, "JA4 not invariant under permutation / GREASE: c%d got %q, its twin c%d got %q", orig, a, tw, b)
				w.Probe("twin_compared")
			} else if okA && okB {
				w.Probe("twin_compared")
			}
		}
	}
}

// ----------------------------------------------------------------- C05

var fpNames = []string{"X-JA3-Fingerprint", "X-JA4-Fingerprint", "X-HTTP2-Fingerprint"}

// nominateGen: an HTTP/1.1 client may name any header in its Connection header, the
// fingerprint headers included (hop-by-hop nomination, RFC 9110 7.6.1); what the proxy
// injects is its own and has to reach the back-end all the same.
func nominateGen(pct int) func(t *rapid.T, proto string, ci, ri int) [][2]string {
	return func(t *rapid.T, proto string, ci, ri int) [][2]string {
		if proto != "h1" || !drawBool(t, "nominate", pct) {
			return nil
		}
		var toks []string
		if drawBool(t, "nomka", 40) {
			toks = append(toks, "keep-alive")
		}
		for _, n := range fpNames {
			if drawBool(t, "nomname", 50) {
				toks = append(toks, randCase(t, n))
			}
		}
		if len(toks) == 0 {
			toks = []string{randCase(t, fpNames[0])}
		}
		return [][2]string{{"Connection", strings.Join(toks, ", ")}}
	}
}

func randCase(t *rapid.T, s string) string {
	b := []byte(s)
	for i := range b {
		if drawBool(t, "rc", 40) {
			if b[i] >= 'a' && b[i] <= 'z' {
				b[i] -= 32
			} else if b[i] >= 'A' && b[i] <= 'Z' {
				b[i] += 32
			}
		}
	}
	return string(b)
}

func drawC05(t *rapid.T) *Case {
	p := &Plan{Check: "C05"}
	p.Args = drawCommonArgs(t)
	drawInjectorSet(t, p)
	names := append([]string(nil), fpNames...)
	for _, e := range p.ExtraInjectors {
		names = append(names, e.Name)
	}
	tok := 0
	gen := func(t *rapid.T, proto string, ci, ri int) [][2]string {
		var h [][2]string
		for _, n := range names {
			k := rapid.IntRange(0, 3).Draw(t, "nspoof")
			for j := 0; j < k; j++ {
				tok++
				name := n
				if proto == "h1" {
					name = randCase(t, n)
				}
				h = append(h, [2]string{name, fmt.Sprintf("spoof-%d", tok)})
			}
		}
		if nom := nominateGen(15)(t, proto, ci, ri); nom != nil {
			h = append(h, nom...)
		}
		return h
	}
	cps, metas := DrawFront(t, FrontOpts{MinClients: 1, MaxClients: 4, MaxReqs: 3, HeaderGen: gen, Hello: HelloOpts{}, FillCanonCachePct: 35})
	// a client knows its own fingerprints: it may put the value the proxy would compute
	// first and its own value second
	for ci, cp := range cps {
		ja3, ja4, ok := PredictFingerprints(cp.Hello)
		if !ok || !drawBool(t, "realfirst", 50) {
			continue
		}
		for ri := range metas[ci].Reqs {
			r := &metas[ci].Reqs[ri]
			var nh [][2]string
			done := map[string]bool{}
			for _, kv := range r.Header {
				l := strings.ToLower(kv[0])
				if !done[l] && strings.HasPrefix(kv[1], "spoof-") {
					done[l] = true
					switch l {
					case "x-ja3-fingerprint":
						nh = append(nh, [2]string{kv[0], ja3})
					case "x-ja4-fingerprint":
						nh = append(nh, [2]string{kv[0], ja4})
					case "x-http2-fingerprint":
						if metas[ci].Proto != "h2" {
							nh = append(nh, [2]string{kv[0], ""})
						}
					}
				}
				nh = append(nh, kv)
			}
			r.Header = nh
		}
		RebuildFrontSteps(cp, metas[ci])
	}
	p.Clients = cps
	if drawBool(t, "injpanic", 12) {
		// a library user's injector, ahead of the default ones, panics at its k-th call: that
		// request may fail in whatever way, but if it is forwarded none of the names behind the
		// panicking injector may carry what the client sent (wave 12, C05-s)
		p.Faults.PanicAt = map[string]int{"injector": rapid.IntRange(1, 4).Draw(t, "injpanicat")}
	}
	p.Tape, p.Tail = drawTape(t, 48)
	c := &Case{Plan: p, Metas: metas, Oracle: oracleC05}
	c.Summary = defaultSummary(p, metas)
	return c
}

func oracleC05(w *World, c *Case) {
	by := w.ReqsByTag()
	names := append([]string(nil), fpNames...)
	extra := map[string]ExtraInjector{}
	for _, e := range c.Plan.ExtraInjectors {
		names = append(names, e.Name)
		extra[e.Name] = e
	}
	for ci, m := range c.Metas {
		for _, r := range m.Reqs {
			for _, br := range by[r.Tag] {
				for _, n := range names {
					vals := headerValues(br.Header, n)
					for _, v := range vals {
						if strings.Contains(v, "spoof-") {
							sig := fmt.Sprintf("spoof:%s:%s", n, protoOf(w, ci))
							w.Violate("spoofed", sig, "%s (%s): client-supplied %s value %q reached the back-end (all values %q)", r.Tag, protoOf(w, ci), n, v, vals)
						}
					}
					if len(vals) > 1 {
						w.Violate("multi", "multi:"+n, "%s (%s): %d values under %s: %q", r.Tag, protoOf(w, ci), len(vals), n, vals)
					}
					if e, ok := extra[n]; ok && e.Mode == "value" {
						if len(vals) != 1 || vals[0] != e.Value {
							w.Violate("custom", "custom", "%s: custom injector %s: got %q want [%q]", r.Tag, n, truncStrings(vals), truncStrings([]string{e.Value})[0])
						}
					}
				}
			}
		}
	}
}

// ----------------------------------------------------------------- C15

type c15Aux struct {
	ProbeOn bool
	Expect  map[string]string // tag -> "local" | "forward" | "either"
	Method  map[string]string
	Pending string // tag of the probe whose body is withheld
}

func drawC15(t *rapid.T) *Case {
	p := &Plan{Check: "C15", Backend: BackendPlan{Resp: map[string]*RespPlan{}}}
	aux := &c15Aux{Expect: map[string]string{}, Method: map[string]string{}}
	switch rapid.IntRange(0, 2).Draw(t, "probeflag") {
	case 0:
		aux.ProbeOn = true // default
	case 1:
		aux.ProbeOn = true
		p.Args = append(p.Args, "-enable-kubernetes-probe=true")
	case 2:
		p.Args = append(p.Args, "-enable-kubernetes-probe=false")
	}
	p.Args = append(p.Args, drawCommonArgs(t)...)
	uaVals := []string{"kube-probe/1.27", "kube-probe/", "kube-probe/1.2 (extra)",
		"Kube-Probe/1.27", "KUBE-PROBE/1", "kube-probe", "kube-prob/1",
		" kube-probe/1.27", "x kube-probe/1.27", "Mozilla/5.0 kube-probe/1.0",
		"curl/8", "", "kube-probe-1.0", "kubeprobe/1"}
	type uaT struct {
		v     string
		probe bool
	}
	// the predicate of the property, on the value as the protocol carries it:
	// HTTP/1.1 strips optional whitespace around field values, HTTP/2 does not
	mkUA := func(proto, v string) uaT {
		eff := v
		if proto == "h1" {
			eff = strings.Trim(v, " \t")
		}
		return uaT{v, strings.HasPrefix(eff, "kube-probe/")}
	}
	gen := func(t *rapid.T, proto string, ci, ri int) [][2]string {
		tag := fmt.Sprintf("c%d-r%d", ci, ri)
		var h [][2]string
		mode := rapid.IntRange(0, 9).Draw(t, "uamode")
		switch {
		case mode == 0:
			// no User-Agent at all; the text elsewhere
			h = append(h, [2]string{"X-Other", "kube-probe/1.0"}, [2]string{"Referer", "kube-probe/1.0"})
			aux.Expect[tag] = "forward"
		case mode == 1:
			// two lines
			a := mkUA(proto, uaVals[rapid.IntRange(0, len(uaVals)-1).Draw(t, "ua1")])
			b := mkUA(proto, uaVals[rapid.IntRange(0, len(uaVals)-1).Draw(t, "ua2")])
			h = append(h, [2]string{"User-Agent", a.v}, [2]string{"User-Agent", b.v})
			// several User-Agent lines are one field whose combined value begins with the
			// first line (RFC 9110 5.3): the first line decides
			if a.probe {
				aux.Expect[tag] = "local"
			} else {
				aux.Expect[tag] = "forward"
			}
			_ = b
		default:
			a := mkUA(proto, uaVals[rapid.IntRange(0, len(uaVals)-1).Draw(t, "ua")])
			name := "User-Agent"
			if proto == "h1" {
				name = randCase(t, name)
			}
			h = append(h, [2]string{name, a.v})
			if a.probe {
				aux.Expect[tag] = "local"
			} else {
				aux.Expect[tag] = "forward"
			}
			if drawBool(t, "otherhdr", 30) {
				h = append(h, [2]string{"X-Other", "kube-probe/1.0"})
			}
			if drawBool(t, "sandwich", 20) {
				// a repeated field around User-Agent: its values must not leak into it
				v1 := uaVals[rapid.IntRange(0, len(uaVals)-1).Draw(t, "sw1")]
				v2 := uaVals[rapid.IntRange(0, len(uaVals)-1).Draw(t, "sw2")]
				h = [][2]string{{"X-Note", "n-" + v1}, h[0], {"Accept", "*/*"}, {"X-Note", v2}}
			}
		}
		if aux.Expect[tag] == "forward" && drawBool(t, "tinyresp", 30) {
			// the back-end answers with a body of 0 or 1 octets and a Content-Length
			body := []byte{}
			if drawBool(t, "tiny1", 60) {
				body = []byte("x")
			}
			p.Backend.Resp[tag] = &RespPlan{Status: 200, Body: body, Header: [][2]string{{"X-Backend-Tag", tag}}}
		}
		return h
	}
	cps, metas := DrawFront(t, FrontOpts{MinClients: 1, MaxClients: 3, MaxReqs: 4, HeaderGen: gen, Hello: HelloOpts{}, Sequential: true})
	// vary method and path
	for ci, m := range metas {
		for ri := range m.Reqs {
			_ = ci
			aux.Method[m.Reqs[ri].Tag] = m.Reqs[ri].Method
		}
	}
	if aux.ProbeOn && drawBool(t, "pendingbody", 30) {
		// a probe whose request header has arrived while its body is still outstanding:
		// the answer does not depend on the body
		ci := len(cps)
		tag := fmt.Sprintf("c%d-r0", ci)
		ua := []string{"kube-probe/1.29", "kube-probe/"}[rapid.IntRange(0, 1).Draw(t, "pbua")]
		// (HTTP/2 only: net/http's HTTP/1.1 server itself reads a declared request body of up
		// to 256 KiB before it writes the response head, whatever the handler did)
		{
			cp := &ClientPlan{ID: ci, Addr: drawAddr(t, ci), Hello: fixedHello("h2")}
			enc := NewHEnc()
			fields := [][2]string{{":method", "POST"}, {":scheme", "https"}, {":authority", "probe.verif.test"}, {":path", "/healthz"}, {"user-agent", ua}, {"x-tag", tag}}
			pre := append([]byte(ClientPreface), FramesBytes(SettingsFrame())...)
			cp.Steps = []Step{{Kind: "connect"}, {Kind: "write", Pieces: [][]byte{pre}},
				{Kind: "write", Pieces: [][]byte{FramesBytes(HeadersFrames(1, enc.Block(fields), false, nil, -1, nil)...)}},
				{Kind: "h2await", Streams: []uint32{1}},
				{Kind: "write", Pieces: [][]byte{FramesBytes(DataFrame(1, []byte("late body"), true, -1))}},
				{Kind: "close"}}
			cps = append(cps, cp)
			metas = append(metas, &ClientMeta{Proto: "h2", Reqs: []ReqSpec{{Tag: tag, Method: "POST", Path: "/healthz"}}})
		}
		aux.Expect[tag] = "local"
		aux.Method[tag] = "POST"
		aux.Pending = tag
	}
	p.Clients = cps
	if drawBool(t, "shutdown", 15) {
		// the proxy is shut down at a drawn step: HTTP/2 connections that exist go on being
		// served while the drain lasts (their requests run with a cancelled context): a probe
		// is still answered 200 "OK", another request is forwarded or fails with a gateway
		// error - it is never answered locally
		p.CancelAtStep = rapid.IntRange(1, 120).Draw(t, "cancelat")
	}
	if p.CancelAtStep == 0 && drawBool(t, "refuse", 20) {
		// the back-end is away for a moment: 1-3 of the proxy's connection attempts are refused;
		// those requests get a gateway error, every other one is forwarded as ever
		for k := rapid.IntRange(1, 3).Draw(t, "nrefuse"); k > 0; k-- {
			p.Faults.RefuseDial = append(p.Faults.RefuseDial, rapid.IntRange(1, 6).Draw(t, "refuseat"))
		}
	}
	p.Tape, p.Tail = drawTape(t, 32)
	c := &Case{Plan: p, Metas: metas, Oracle: oracleC15, Aux: aux}
	c.Summary = fmt.Sprintf("probe=%v cancelAt=%d expect=%v | %s", aux.ProbeOn, p.CancelAtStep, aux.Expect, defaultSummary(p, metas))
	c.Nontrivial = func(w *World, c *Case) bool {
		for _, cl := range w.Clients {
			if len(cl.Resps) > 0 || len(cl.Streams) > 0 {
				return true
			}
		}
		return false
	}
	return c
}

// clientResponse returns status and body as seen by the client for request ri.
func clientResponse(w *World, c *Case, ci, ri int) (status int, body []byte, hdr map[string][]string, ok bool) {
	cl := w.Clients[ci]
	m := c.Metas[ci]
	tag := m.Reqs[ri].Tag
	if cl.NegProto == "h2" {
		st := cl.Streams[uint32(2*ri+1)]
		if st == nil || !st.Ended {
			return 0, nil, nil, false
		}
		fmt.Sscanf(st.Status, "%d", &status)
		hdr = map[string][]string{}
		for _, kv := range st.Header {
			hdr[kv[0]] = append(hdr[kv[0]], kv[1])
		}
		return status, st.Body, hdr, true
	}
	for _, r := range cl.Resps {
		if r.Tag == tag && r.Err == "" {
			h := map[string][]string{}
			for k, v := range r.Header {
				h[strings.ToLower(k)] = v
			}
			return r.Status, r.Body, h, true
		}
	}
	return 0, nil, nil, false
}

func oracleC15(w *World, c *Case) {
	aux := c.Aux.(*c15Aux)
	by := w.ReqsByTag()
	gatewayErrs := 0
	defer func() {
		w.Net.fmu.Lock()
		refused := w.Net.Faults["backend_refuse"]
		w.Net.fmu.Unlock()
		if gatewayErrs > refused {
			w.Violate("nonprobe_local", "nonprobe_local:gateway", "%d non-probe requests were answered with a gateway error (502) by the proxy itself although only %d connection attempts to the back-end were refused: the others were not forwarded", gatewayErrs, refused)
		}
	}()
	for ci, m := range c.Metas {
		for ri, r := range m.Reqs {
			status, body, hdr, ok := clientResponse(w, c, ci, ri)
			if !ok {
				if r.Tag == aux.Pending && !w.Cancelled {
					w.Violate("probe_not_answered", "probe_not_answered", "probe %s (%s) whose body was still outstanding got no answer (client step errors %v, run stuck=%v)", r.Tag, protoOf(w, ci), w.Clients[ci].StepErrs, w.Stuck)
				}
				continue
			}
			forwarded := len(by[r.Tag]) > 0
			local := status == 200 && string(body) == "OK" && len(hdr["x-backend-tag"]) == 0
			fromBackend := len(hdr["x-backend-tag"]) == 1 && hdr["x-backend-tag"][0] == r.Tag
			want := aux.Expect[r.Tag]
			if !aux.ProbeOn {
				want = "forward"
			}
			desc := fmt.Sprintf("%s (%s) probe=%v headers=%q: status=%d body=%q forwarded=%v", r.Tag, protoOf(w, ci), aux.ProbeOn, r.Header, status, body, forwarded)
			if w.Cancelled {
				// shut down meanwhile: a forward may have failed or lost its answer (request
				// contexts are cancelled, O6) - that shows as a gateway error, nothing else
				switch {
				case local && forwarded:
					w.Violate("both_or_neither", "both_or_neither", "request was answered locally and forwarded: %s", desc)
				case want == "local" && !local:
					w.Violate("probe_forwarded", "probe_forwarded", "probe request was not answered locally with 200 OK (shutdown in progress): %s", desc)
				case want == "forward" && (local || !(fromBackend || status >= 500)):
					w.Violate("nonprobe_local", "nonprobe_local", "non-probe request got an answer that is neither the back-end's nor a gateway error (shutdown in progress): %s", desc)
				default:
					w.Probe("judged_during_shutdown")
				}
				continue
			}
			if !forwarded && !local && status == 502 && want == "forward" {
				// a gateway error of the proxy's own: legitimate for a request whose connection to
				// the back-end was refused (injected), and only for those - every other non-probe
				// request is to be forwarded, not answered from a memory of earlier failures
				gatewayErrs++
				w.Probe("gateway_error_answer")
				continue
			}
			if forwarded == local || forwarded != fromBackend {
				w.Violate("both_or_neither", "both_or_neither", "request was answered locally=%v and forwarded=%v (backend response seen=%v): %s", local, forwarded, fromBackend, desc)
				continue
			}
			if want == "local" && !local {
				w.Violate("probe_forwarded", "probe_forwarded", "probe request was forwarded: %s", desc)
			}
			if want == "forward" && !forwarded {
				w.Violate("nonprobe_local", "nonprobe_local", "non-probe request was answered locally: %s", desc)
			}
			if local {
				w.Probe("answered_locally")
			}
		}
	}
}

func hasUtlsStrictExt(h *RefHello) bool {
	for _, e := range h.Exts {
		for _, id := range UtlsStrictExts {
			if e.Type == id {
				return true
			}
		}
	}
	return false
}

func lastLogLine(w *World, sub string) string {
	w.mu.Lock()
	defer w.mu.Unlock()
	lines := strings.Split(w.LogBuf.String(), "\n")
	for i := len(lines) - 1; i >= 0; i-- {
		if strings.Contains(lines[i], sub) {
			return lines[i]
		}
	}
	return ""
}

func hasExt(h *HelloPlan, kind string) bool {
	for _, e := range h.Exts {
		if e.Kind == kind {
			return true
		}
	}
	return false
}

package harness

// gen: rapid generators.  rapid is the sole choice source; everything is drawn
// before the bubble is entered (DESIGN.md 3.5).

import (
	"fmt"
	"strings"

	"pgregory.net/rapid"
)

var greaseVals = []uint16{0x0a0a, 0x1a1a, 0x2a2a, 0x3a3a, 0x4a4a, 0x5a5a, 0x6a6a, 0x7a7a, 0x8a8a, 0x9a9a, 0xaaaa, 0xbaba, 0xcaca, 0xdada, 0xeaea, 0xfafa}

// explicit GREASE values other than the utls placeholder (0x0a0a is replaced by utls)
func drawGrease(t *rapid.T, label string) uint16 {
	return greaseVals[rapid.IntRange(1, 15).Draw(t, label)]
}

// drawNearGrease: an unassigned value of the shape 0xXaYa with X != Y - it looks like a
// GREASE placeholder to the test "v&0x0f0f == 0x0a0a" but is not one (RFC 8701: both
// octets are equal), so it counts and is hashed like any other value.
func drawNearGrease(t *rapid.T, label string) uint16 {
	x := rapid.IntRange(0, 15).Draw(t, label+"x")
	y := rapid.IntRange(0, 14).Draw(t, label+"y")
	if y >= x {
		y++
	}
	return uint16(x<<12 | 0xa<<8 | y<<4 | 0xa)
}

func drawBool(t *rapid.T, label string, pctTrue int) bool {
	// 0 (what shrinking tends to) means false
	return rapid.IntRange(0, 99).Draw(t, label) >= 100-pctTrue
}

func insertAt[T any](s []T, i int, v T) []T {
	if i > len(s) {
		i = len(s)
	}
	s = append(s, v)
	copy(s[i+1:], s[i:])
	s[i] = v
	return s
}

func shuffle[T any](t *rapid.T, label string, s []T) {
	for i := len(s) - 1; i > 0; i-- {
		j := rapid.IntRange(0, i).Draw(t, label)
		s[i], s[j] = s[j], s[i]
	}
}

// sprinkle inserts k GREASE / unknown values at drawn positions (incl. first / last).
func sprinkle(t *rapid.T, label string, s []uint16, unknown []uint16) []uint16 {
	k := rapid.IntRange(0, 3).Draw(t, label+"_n")
	for i := 0; i < k; i++ {
		var v uint16
		if len(unknown) > 0 && drawBool(t, label+"_unk", 40) {
			v = unknown[rapid.IntRange(0, len(unknown)-1).Draw(t, label+"_u")]
		} else if drawBool(t, label+"_near", 25) {
			v = drawNearGrease(t, label+"_ng")
		} else {
			v = drawGrease(t, label+"_g")
		}
		pos := rapid.IntRange(0, len(s)).Draw(t, label+"_pos")
		s = insertAt(s, pos, v)
	}
	return s
}

type HelloOpts struct {
	Proto      string // "h2", "h1", "none", "" = draw
	AllowNoExt bool
	SNILen     int // >0: force this SNI length
	ForceTLS12 bool
}

// extension types neither crypto/tls nor utls knows
var safeUnknownExts = []uint16{0x0040, 0x0041, 0xfd00, 0xfd7a, 0x0045, 0x00c7, 0x3377, 0x2b2b, 0x0f0f, 0xabcd}

// extension types crypto/tls ignores but utls parses strictly (D8)
var UtlsStrictExts = []uint16{0x0011, 0x0018, 0x001b, 0x001c, 0x0022, 0x4469, 0x7550, 0x754f} // 0x754f: the old code point of channel_id, which utls parses into the same type as 0x7550
var unknownCiphers = []uint16{0x00ff, 0xc0ff, 0x1304, 0x1305, 0x00a8, 0xd001}
var unknownGroups = []uint16{0x0100, 0x0101, 0x0019, 0x001e, 0x6399, 0x4138}
var unknownSigAlgs = []uint16{0x0203, 0x0807, 0x0808, 0x081a, 0x0201, 0x0904}

func drawHost(t *rapid.T, n int) string {
	// labels of <= 63 chars
	var sb strings.Builder
	lab := 0
	for sb.Len() < n {
		if lab == 63 || (lab > 0 && sb.Len() < n-1 && rapid.IntRange(0, 11).Draw(t, "dot") == 0) {
			sb.WriteByte('.')
			lab = 0
			continue
		}
		sb.WriteByte(byte('a' + rapid.IntRange(0, 25).Draw(t, "hc")))
		lab++
	}
	s := sb.String()
	if strings.HasSuffix(s, ".") {
		s = s[:len(s)-1] + "x"
	}
	return s
}

func DrawHello(t *rapid.T, o HelloOpts) *HelloPlan {
	h := &HelloPlan{}
	proto := o.Proto
	if proto == "" {
		proto = []string{"h2", "h1", "none"}[rapid.IntRange(0, 2).Draw(t, "proto")]
	}
	if o.AllowNoExt && proto == "none" && drawBool(t, "noext", 30) {
		// TLS 1.2, RSA key exchange, no extensions at all
		h.VersMin, h.VersMax = 0x0301, 0x0303
		h.Ciphers = []uint16{0x009c}
		if drawBool(t, "noext_more", 50) {
			h.Ciphers = append(h.Ciphers, 0x009d, 0x002f)
		}
		h.Ciphers = sprinkle(t, "c", h.Ciphers, unknownCiphers)
		h.NoExtensions = true
		return h
	}
	tls13 := !o.ForceTLS12 && drawBool(t, "tls13", 65)
	tls12 := !tls13 || drawBool(t, "tls12too", 60)
	var ciphers []uint16
	if tls13 {
		c13 := []uint16{0x1301, 0x1302, 0x1303}
		shuffle(t, "c13s", c13)
		ciphers = append(ciphers, c13[:rapid.IntRange(1, 3).Draw(t, "c13n")]...)
	}
	if tls12 {
		c12 := []uint16{0xc02f, 0xc030, 0xcca8}
		shuffle(t, "c12s", c12)
		ciphers = append(ciphers, c12[:rapid.IntRange(1, 3).Draw(t, "c12n")]...)
		if drawBool(t, "cbc", 30) {
			ciphers = append(ciphers, 0xc013, 0xc014, 0x009c)
		}
	}
	if drawBool(t, "cshuf", 50) {
		shuffle(t, "cs", ciphers)
	}
	ciphers = sprinkle(t, "c", ciphers, unknownCiphers)
	if drawBool(t, "manyc", 4) {
		// > 99 cipher suites; also beyond 255 (one-byte counters)
		nmany := []int{110, 260, 300}[rapid.IntRange(0, 2).Draw(t, "manycn")]
		for i := 0; i < nmany; i++ {
			ciphers = append(ciphers, uint16(0xe000+i))
		}
	}
	h.Ciphers = ciphers
	h.VersMin = 0x0301
	h.VersMax = 0x0303
	if tls13 {
		h.VersMax = 0x0304
	}

	var exts []ExtPlan
	// groups + key share
	groups := []uint16{29, 23}
	shuffle(t, "gs", groups)
	if drawBool(t, "g1", 30) {
		groups = groups[:1]
	}
	ksGroup := groups[0]
	if drawBool(t, "g384", 30) {
		groups = append(groups, 24)
	}
	groups = sprinkle(t, "g", groups, unknownGroups)
	exts = append(exts, ExtPlan{Kind: "groups", U16: groups})
	if drawBool(t, "points", 70) {
		pts := []uint8{0}
		if drawBool(t, "pts3", 30) {
			pts = []uint8{0, 1, 2}
		}
		exts = append(exts, ExtPlan{Kind: "points", U8: pts})
	}
	sigs := []uint16{0x0804, 0x0401}
	if drawBool(t, "moresig", 60) {
		sigs = append(sigs, 0x0403, 0x0805, 0x0501, 0x0806, 0x0601)
	}
	if drawBool(t, "sigshuf", 40) {
		shuffle(t, "ss", sigs)
	}
	if drawBool(t, "sigunk", 30) {
		sigs = sprinkle(t, "sg", sigs, unknownSigAlgs)
	}
	exts = append(exts, ExtPlan{Kind: "sigalgs", U16: sigs})
	if tls13 {
		vs := []uint16{0x0304}
		if tls12 {
			vs = append(vs, 0x0303)
			if drawBool(t, "v11", 30) {
				vs = append(vs, 0x0302, 0x0301)
			}
		}
		if drawBool(t, "vgrease", 50) {
			vs = insertAt(vs, rapid.IntRange(0, len(vs)).Draw(t, "vgp"), drawGrease(t, "vg"))
		}
		if drawBool(t, "vnear", 15) {
			vs = insertAt(vs, rapid.IntRange(0, len(vs)).Draw(t, "vnp"), drawNearGrease(t, "vn"))
		}
		exts = append(exts, ExtPlan{Kind: "versions", U16: vs})
		ks := []uint16{ksGroup}
		if drawBool(t, "ksgrease", 40) {
			ks = insertAt(ks, 0, drawGrease(t, "ksg"))
		}
		exts = append(exts, ExtPlan{Kind: "keyshare", U16: ks})
		if drawBool(t, "pskmodes", 60) {
			exts = append(exts, ExtPlan{Kind: "pskmodes", U8: []uint8{1}})
		}
	} else if drawBool(t, "v12ext", 20) {
		exts = append(exts, ExtPlan{Kind: "versions", U16: []uint16{0x0303, 0x0302}})
	} else if drawBool(t, "legacyvers", 25) {
		// no supported_versions: legacy_version speaks, and it need not be 0x0303
		h.LegacyVers = []uint16{0x0304, 0x0305, 0x03ff, 0x0303}[rapid.IntRange(0, 3).Draw(t, "legacyv")]
	}
	switch proto {
	case "h2":
		a := [][]string{{"h2", "http/1.1"}, {"h2"}, {"http/1.1", "h2"}, {"spdy/3", "h2", "http/1.1"}, {"h2", "h3"}}
		exts = append(exts, ExtPlan{Kind: "alpn", Strs: a[rapid.IntRange(0, len(a)-1).Draw(t, "alpn")]})
	case "h1":
		a := [][]string{{"http/1.1"}, {"http/1.1", "http/1.0"}, {"x", "http/1.1"}, {"\xc3\xa9t\xc3\xa9", "http/1.1"}, {"http/1.1", "\x1a\x1a"}}
		exts = append(exts, ExtPlan{Kind: "alpn", Strs: a[rapid.IntRange(0, len(a)-1).Draw(t, "alpn")]})
	}
	if o.SNILen > 0 || drawBool(t, "sni", 75) {
		n := o.SNILen
		if n == 0 {
			n = rapid.IntRange(1, 80).Draw(t, "snilen")
		}
		exts = append(exts, ExtPlan{Kind: "sni", Str: drawHost(t, n)})
	}
	for _, k := range []string{"status", "sct", "ems", "reneg", "ticket"} {
		if drawBool(t, "x_"+k, 40) {
			exts = append(exts, ExtPlan{Kind: k})
		}
	}
	nunk := rapid.IntRange(0, 2).Draw(t, "nunk")
	perm := append([]uint16(nil), safeUnknownExts...)
	shuffle(t, "unkshuf", perm)
	for i := 0; i < nunk; i++ {
		exts = append(exts, ExtPlan{Kind: "generic", ID: perm[i], Data: make([]byte, rapid.IntRange(0, 9).Draw(t, "unklen"))})
	}
	if drawBool(t, "strictx", 5) {
		id := UtlsStrictExts[rapid.IntRange(0, len(UtlsStrictExts)-1).Draw(t, "strictid")]
		exts = append(exts, ExtPlan{Kind: "generic", ID: id, Data: make([]byte, rapid.IntRange(0, 6).Draw(t, "strictlen"))})
	}
	if drawBool(t, "manyx", 4) {
		nmany := []int{105, 260}[rapid.IntRange(0, 1).Draw(t, "manyxn")]
		for i := 0; i < nmany; i++ {
			exts = append(exts, ExtPlan{Kind: "generic", ID: uint16(0xe100 + i)})
		}
	}
	if drawBool(t, "xshuf", 60) {
		shuffle(t, "xs", exts)
	}
	ng := rapid.IntRange(0, 2).Draw(t, "ngrease")
	gperm := append([]uint16(nil), greaseVals[1:]...)
	shuffle(t, "gshuf", gperm)
	for i := 0; i < ng; i++ {
		pos := rapid.IntRange(0, len(exts)).Draw(t, "gpos")
		var data []byte
		if drawBool(t, "gdata", 50) {
			data = []byte{0}
		}
		exts = insertAt(exts, pos, ExtPlan{Kind: "grease", ID: gperm[i], Data: data})
	}
	if drawBool(t, "pad", 25) {
		exts = append(exts, ExtPlan{Kind: "padding", Data: make([]byte, rapid.IntRange(1, 200).Draw(t, "padlen"))})
	}
	if tls13 && drawBool(t, "fakepsk", 12) {
		hasModes := false
		for _, e := range exts {
			if e.Kind == "pskmodes" {
				hasModes = true
			}
		}
		if !hasModes {
			exts = append(exts, ExtPlan{Kind: "pskmodes", U8: []uint8{1}})
		}
		exts = append(exts, ExtPlan{Kind: "fakepsk", Data: make([]byte, rapid.IntRange(16, 120).Draw(t, "psklabel"))})
	}
	h.Exts = exts
	return h
}

func drawAddr(t *rapid.T, id int) string {
	switch rapid.IntRange(0, 3).Draw(t, "addrkind") {
	case 0:
		return fmt.Sprintf("[2001:db8::%x]:%d", 0x10+id, 30000+id)
	case 1:
		// same address as another client may have
		return fmt.Sprintf("192.0.2.7:%d", 31000+id)
	default:
		return fmt.Sprintf("198.51.100.%d:%d", 10+id, 32000+id)
	}
}

func drawTape(t *rapid.T, maxLen int) ([]uint16, uint64) {
	tape := rapid.SliceOfN(rapid.Uint16(), 0, maxLen).Draw(t, "tape")
	tail := rapid.Uint64().Draw(t, "tail")
	return tape, tail
}

func drawSeg(t *rapid.T) SegPlan {
	switch rapid.IntRange(0, 5).Draw(t, "segkind") {
	case 0:
		return SegPlan{Profile: "byte", Until: rapid.IntRange(1, 12).Draw(t, "seguntil")}
	case 1:
		return SegPlan{Profile: "rand", Until: 4096}
	case 2:
		// cut inside the 5-byte header, at it, and one more
		return SegPlan{Profile: "cuts", Cuts: []int{rapid.IntRange(1, 5).Draw(t, "cut1"), rapid.IntRange(6, 600).Draw(t, "cut2")}}
	}
	return SegPlan{}
}

package harness

// refframe: a minimal, independent HTTP/2 frame codec (RFC 7540 section 4, 6).
// Not derived from pkg/http2/frame.go.

import (
	"encoding/binary"
	"fmt"
)

const (
	FData         = 0x0
	FHeaders      = 0x1
	FPriority     = 0x2
	FRSTStream    = 0x3
	FSettings     = 0x4
	FPushPromise  = 0x5
	FPing         = 0x6
	FGoAway       = 0x7
	FWindowUpdate = 0x8
	FContinuation = 0x9

	FlagEndStream  = 0x1
	FlagAck        = 0x1
	FlagEndHeaders = 0x4
	FlagPadded     = 0x8
	FlagPriority   = 0x20

	ClientPreface = "PRI * HTTP/2.0\r\n\r\nSM\r\n\r\n"
)

const (
	ErrNo = iota
	ErrProtocol
	ErrInternal
	ErrFlowControl
	ErrSettingsTimeout
	ErrStreamClosed
	ErrFrameSize
	ErrRefusedStream
	ErrCancel
	ErrCompression
	ErrConnect
	ErrEnhanceYourCalm
	ErrInadequateSecurity
	ErrHTTP11Required
)

type Frame struct {
	Type    uint8
	Flags   uint8
	Stream  uint32 // 31 bits; bit 31 = reserved bit as sent
	Payload []byte
}

func (f Frame) Bytes() []byte {
	b := make([]byte, 9+len(f.Payload))
	l := len(f.Payload)
	b[0], b[1], b[2] = byte(l>>16), byte(l>>8), byte(l)
	b[3] = f.Type
	b[4] = f.Flags
	binary.BigEndian.PutUint32(b[5:], f.Stream)
	copy(b[9:], f.Payload)
	return b
}

func (f Frame) String() string {
	names := []string{"DATA", "HEADERS", "PRIORITY", "RST_STREAM", "SETTINGS", "PUSH_PROMISE", "PING", "GOAWAY", "WINDOW_UPDATE", "CONTINUATION"}
	n := fmt.Sprintf("T%d", f.Type)
	if int(f.Type) < len(names) {
		n = names[f.Type]
	}
	extra := ""
	switch f.Type {
	case FRSTStream:
		if len(f.Payload) == 4 {
			extra = fmt.Sprintf(" code=%d", binary.BigEndian.Uint32(f.Payload))
		}
	case FGoAway:
		if len(f.Payload) >= 8 {
			extra = fmt.Sprintf(" last=%d code=%d", binary.BigEndian.Uint32(f.Payload)&0x7fffffff, binary.BigEndian.Uint32(f.Payload[4:]))
		}
	case FWindowUpdate:
		if len(f.Payload) == 4 {
			extra = fmt.Sprintf(" inc=%d", binary.BigEndian.Uint32(f.Payload)&0x7fffffff)
		}
	}
	return fmt.Sprintf("%s s=%d fl=%#x len=%d%s", n, f.Stream&0x7fffffff, f.Flags, len(f.Payload), extra)
}

// ParseFrame reads one frame from buf; ok=false when buf is too short.
func ParseFrame(buf []byte) (f Frame, n int, ok bool) {
	if len(buf) < 9 {
		return f, 0, false
	}
	l := int(buf[0])<<16 | int(buf[1])<<8 | int(buf[2])
	if len(buf) < 9+l {
		return f, 0, false
	}
	f.Type = buf[3]
	f.Flags = buf[4]
	f.Stream = binary.BigEndian.Uint32(buf[5:9])
	f.Payload = append([]byte(nil), buf[9:9+l]...)
	return f, 9 + l, true
}

type Setting struct {
	ID  uint16
	Val uint32
}

func SettingsFrame(ss ...Setting) Frame {
	p := make([]byte, 0, 6*len(ss))
	for _, s := range ss {
		p = binary.BigEndian.AppendUint16(p, s.ID)
		p = binary.BigEndian.AppendUint32(p, s.Val)
	}
	return Frame{Type: FSettings, Payload: p}
}

func SettingsAck() Frame { return Frame{Type: FSettings, Flags: FlagAck} }

func WindowUpdateFrame(stream, inc uint32) Frame {
	return Frame{Type: FWindowUpdate, Stream: stream, Payload: binary.BigEndian.AppendUint32(nil, inc)}
}

type PrioParam struct {
	Dep       uint32
	Exclusive bool
	Weight    uint8
}

func (p PrioParam) bytes() []byte {
	v := p.Dep & 0x7fffffff
	if p.Exclusive {
		v |= 1 << 31
	}
	return append(binary.BigEndian.AppendUint32(nil, v), p.Weight)
}

func PriorityFrame(stream uint32, p PrioParam) Frame {
	return Frame{Type: FPriority, Stream: stream, Payload: p.bytes()}
}

func RSTFrame(stream uint32, code uint32) Frame {
	return Frame{Type: FRSTStream, Stream: stream, Payload: binary.BigEndian.AppendUint32(nil, code)}
}

func PingFrame(ack bool, data [8]byte) Frame {
	f := Frame{Type: FPing, Payload: data[:]}
	if ack {
		f.Flags = FlagAck
	}
	return f
}

func GoAwayFrame(last, code uint32, debug []byte) Frame {
	p := binary.BigEndian.AppendUint32(nil, last)
	p = binary.BigEndian.AppendUint32(p, code)
	return Frame{Type: FGoAway, Payload: append(p, debug...)}
}

func DataFrame(stream uint32, data []byte, endStream bool, pad int) Frame {
	f := Frame{Type: FData, Stream: stream}
	if endStream {
		f.Flags |= FlagEndStream
	}
	if pad >= 0 {
		f.Flags |= FlagPadded
		f.Payload = append([]byte{byte(pad)}, data...)
		f.Payload = append(f.Payload, make([]byte, pad)...)
	} else {
		f.Payload = append([]byte(nil), data...)
	}
	return f
}

// HeadersFrames splits a header block over HEADERS + CONTINUATION frames at
// the given cut offsets (ascending, inside the block).
func HeadersFrames(stream uint32, block []byte, endStream bool, prio *PrioParam, pad int, cuts []int) []Frame {
	var parts [][]byte
	prev := 0
	for _, c := range cuts {
		if c <= prev || c >= len(block) {
			continue
		}
		parts = append(parts, block[prev:c])
		prev = c
	}
	parts = append(parts, block[prev:])
	var out []Frame
	for i, part := range parts {
		var f Frame
		f.Stream = stream
		if i == 0 {
			f.Type = FHeaders
			var p []byte
			if pad >= 0 {
				f.Flags |= FlagPadded
				p = append(p, byte(pad))
			}
			if prio != nil {
				f.Flags |= FlagPriority
				p = append(p, prio.bytes()...)
			}
			p = append(p, part...)
			if pad >= 0 {
				p = append(p, make([]byte, pad)...)
			}
			f.Payload = p
			if endStream {
				f.Flags |= FlagEndStream
			}
		} else {
			f.Type = FContinuation
			f.Payload = append([]byte(nil), part...)
		}
		if i == len(parts)-1 {
			f.Flags |= FlagEndHeaders
		}
		out = append(out, f)
	}
	return out
}

func FramesBytes(fs ...Frame) []byte {
	var b []byte
	for _, f := range fs {
		b = append(b, f.Bytes()...)
	}
	return b
}

package harness

import (
	"errors"
	"fmt"
	"net/http"
	"os"
	"time"

	"pgregory.net/rapid"
)

func init() {
	register(&CheckDef{ID: "C17", Level: "exploration", Engine: "A", Draw: drawC17,
		Rule: "workload of 1-6 connections (handshakes in progress and stalled, idle HTTP/1.1 keep-alive, open HTTP/2, HTTP/1.1 connections upgraded to a tunnel that the client keeps open, HTTP/1.1 exchanges held in flight by a back-end that sleeps 1-3 simulated seconds or parks until released, and in 40% of the runs by a header injector that parks every request inside the proxy's handler until the controller releases it) with the server context cancelled as a controller action at a drawn decision index (including before Serve, and a repeated cancel later), followed by 1-2 clients that attempt to connect after the cancellation. Oracle: no request of a connection attempted after the cancel reaches the back-end; Serve has not returned while a back-end-acknowledged HTTP/1.1 exchange is still unanswered; once none is, Serve returns http.ErrServerClosed with the listener closed within 7 simulated seconds (net/http counts a connection that never sent a request as idle once it is 5 s old); idle and fresh HTTP/1.1 connections are closed. Non-trivial: the cancel fired while at least one connection was open or a late client tried to connect. Distinct: distinct controller action-label sequences."})
}

type c17Aux struct {
	Late  []int // client indexes that start after the cancel
	Kinds []string
	// after Serve has returned it is called once more, on a fresh listener (a caller
	// retrying, or a second listener brought up late): the cancellation still holds
	SecondServe bool
}

func drawC17(t *rapid.T) *Case {
	p := &Plan{Check: "C17", Backend: BackendPlan{Resp: map[string]*RespPlan{}}}
	aux := &c17Aux{SecondServe: drawBool(t, "secondserve", 30)}
	n := rapid.IntRange(0, 5).Draw(t, "nconn")
	var metas []*ClientMeta
	kinds := []string{"h1ok", "h1idle_close", "h2ok", "h2idle", "abort_handshake", "stall_wait", "h1slow", "noneok", "h1fresh", "h1tunnel"}
	for ci := 0; ci < n; ci++ {
		kind := kinds[rapid.IntRange(0, len(kinds)-1).Draw(t, "kind")]
		if v := osGetenv("VERIF_C17_KIND"); v != "" {
			kind = v
		}
		var cp *ClientPlan
		var m *ClientMeta
		switch kind {
		case "h2idle":
			cp, m = DrawConnClient(t, ci, "h2ok", 10)
			// stay connected after the requests: wait for the server to hang up
			cp.Steps[len(cp.Steps)-1] = Step{Kind: "readeof"}
			cp.Steps = append(cp.Steps, Step{Kind: "close"})
		case "h1fresh":
			// handshake done, no request sent: net/http counts such a connection as idle once it
			// is 5 seconds old; shutdown has to close it
			cp, m = DrawConnClient(t, ci, "h1ok", 10)
			m.Reqs = nil
			cp.Steps = []Step{{Kind: "connect"}, {Kind: "readeof"}, {Kind: "close"}}
		case "h1tunnel":
			// a protocol upgrade through the reverse proxy; the client then stays in the tunnel
			// until somebody else ends it: a hijacked connection is none of net/http's any more,
			// Serve must not wait for it
			cp, m = DrawConnClient(t, ci, "h1upgrade", 10)
			for len(cp.Steps) > 0 && cp.Steps[len(cp.Steps)-1].Kind != "h1req" && cp.Steps[len(cp.Steps)-1].Kind != "tunnel" {
				cp.Steps = cp.Steps[:len(cp.Steps)-1]
			}
			cp.Steps = append(cp.Steps, Step{Kind: "readeof"}, Step{Kind: "close"})
		case "h1slow":
			cp, m = DrawConnClient(t, ci, "h1ok", 10)
			for _, r := range m.Reqs {
				if drawBool(t, "hold", 50) {
					p.Backend.Resp[r.Tag] = &RespPlan{Status: 200, Body: []byte("slow:" + r.Tag), Hold: true}
				} else {
					p.Backend.Resp[r.Tag] = &RespPlan{Status: 200, Body: []byte("slow:" + r.Tag), DelayMS: 1000 * rapid.IntRange(1, 3).Draw(t, "delay")}
				}
			}
		default:
			cp, m = DrawConnClient(t, ci, kind, 10)
		}
		m.Kind = kind
		p.Clients = append(p.Clients, cp)
		metas = append(metas, m)
		aux.Kinds = append(aux.Kinds, kind)
	}
	nlate := rapid.IntRange(1, 2).Draw(t, "nlate")
	for k := 0; k < nlate; k++ {
		ci := len(p.Clients)
		cp, m := controlClient([]string{"h1", "h2"}[rapid.IntRange(0, 1).Draw(t, "lateproto")], ci, nil)
		cp.StartAfterCancel = true
		m.Kind = "late"
		p.Clients = append(p.Clients, cp)
		metas = append(metas, m)
		aux.Late = append(aux.Late, ci)
		aux.Kinds = append(aux.Kinds, "late")
	}
	switch rapid.IntRange(0, 9).Draw(t, "cancelmode") {
	case 0:
		p.CancelBeforeServe = true
	default:
		p.CancelAtStep = rapid.IntRange(1, 120).Draw(t, "cancelat")
	}
	if drawBool(t, "recancel", 30) {
		p.SecondCancelAtStep = p.CancelAtStep + rapid.IntRange(1, 20).Draw(t, "recancel_after")
	}
	p.Args = []string{"-timeout-tls-handshake", "10s"}
	p.Fences = drawBool(t, "fences", 30)
	// requests parked inside the proxy's own handler (at a header injector, which does not watch
	// the request context): exchanges that stay in flight across the cancel for as long as the
	// controller likes, whatever the cancellation does to the forwarding
	p.YieldInjector = drawBool(t, "yieldinjector", 40)
	p.Tape, p.Tail = drawTape(t, 128)
	p.Invariant = c17Invariant
	c := &Case{Plan: p, Metas: metas, Oracle: oracleC17, Aux: aux}
	c.Summary = fmt.Sprintf("cancelBeforeServe=%v cancelAt=%d recancelAt=%d kinds=%v", p.CancelBeforeServe, p.CancelAtStep, p.SecondCancelAtStep, aux.Kinds)
	c.Nontrivial = func(w *World, c *Case) bool { return w.Cancelled }
	return c
}

// exchangesInFlight: HTTP/1.1 requests the back-end has received and whose
// client has not yet received the response (and is still there to receive it).
func exchangesInFlight(w *World) []string {
	var out []string
	w.mu.Lock()
	defer w.mu.Unlock()
	for _, br := range w.BackReqs {
		var id, ri int
		if n, _ := fmt.Sscanf(br.Tag, "c%d-r%d", &id, &ri); n != 2 || id >= len(w.Clients) {
			continue
		}
		cl := w.Clients[id]
		if cl.NegProto == "h2" || cl.aborted || cl.done {
			continue
		}
		answered := false
		for _, r := range cl.Resps {
			if r.Tag == br.Tag {
				answered = true
			}
		}
		if !answered {
			out = append(out, br.Tag)
		}
	}
	return out
}

// c17Invariant: at the first quiescent point at which Serve has returned,
// remember how much the proxy has written on every non-HTTP/2 front
// connection.  An HTTP/1.1 exchange still in flight at that moment would show
// as bytes written afterwards.
func c17Invariant(w *World) {
	w.mu.Lock()
	done := w.ServeDone
	w.mu.Unlock()
	if !done {
		return
	}
	snap := map[string]int{}
	w.Net.mu.Lock()
	for _, name := range w.Net.names {
		if len(name) > 0 && name[0] == 'c' {
			snap[name] = w.Net.pairs[name].B.out.total
		}
	}
	w.Net.mu.Unlock()
	w.Aux = snap
	w.Plan.Invariant = nil
}

func oracleC17(w *World, c *Case) {
	aux := c.Aux.(*c17Aux)
	if !w.Cancelled {
		return
	}
	// finish what is in flight, fairly; then a few simulated seconds for the Shutdown poll
	w.Drain(5000)
	lastExchange := w.Now()
	for _, cl := range w.Clients {
		for _, r := range cl.Resps {
			if r.Time > lastExchange {
				lastExchange = r.Time
			}
		}
	}
	if fl := exchangesInFlight(w); len(fl) > 0 {
		w.Probe("exchange_in_flight_after_drain")
	}
	w.SettleTime(8)
	w.mu.Lock()
	done, err, at := w.ServeDone, w.ServeErr, w.ServeDoneAt
	w.mu.Unlock()
	if !done {
		gs := Census("proxyserver.(*Server).Serve", "net/http.(*Server).Shutdown")
		first := ""
		if len(gs) > 0 {
			first = gs[0]
		}
		w.Violate("serve_did_not_return", "serve_did_not_return", "%s: Serve has not returned %v after the cancel (exchanges in flight: %v); goroutine:\n%s", c.Summary, w.Now()-w.CancelledAt, exchangesInFlight(w), first)
		return
	}
	if !errors.Is(err, http.ErrServerClosed) {
		w.Violate("serve_error", "serve_error", "%s: Serve returned %v, want http.ErrServerClosed", c.Summary, err)
	}
	if !w.Front.IsClosed() {
		w.Violate("listener_open", "listener_open", "%s: Serve returned but the listening socket is still open", c.Summary)
	}
	if aux.SecondServe && w.Srv != nil {
		ln2 := w.Net.NewListener(tcpAddr("192.0.2.1:9443"))
		done2 := make(chan error, 1)
		go func() { done2 <- w.Srv.Serve(ln2) }()
		w.SettleTime(3)
		select {
		case err2 := <-done2:
			if !errors.Is(err2, http.ErrServerClosed) {
				w.Violate("second_serve_error", "second_serve_error", "%s: Serve called again after the cancellation returned %v, want http.ErrServerClosed", c.Summary, err2)
			}
			if !ln2.IsClosed() {
				w.Violate("second_listener_open", "second_listener_open", "%s: Serve called again after the cancellation returned but left its listening socket open", c.Summary)
			}
			w.Probe("second_serve_returned")
		default:
			ln2.Close()
			w.Violate("second_serve_did_not_return", "second_serve_did_not_return", "%s: Serve called again (fresh listener) after the cancellation and the first shutdown had completed did not return within 3 s", c.Summary)
		}
	}
	ref := w.CancelledAt
	if lastExchange > ref {
		ref = lastExchange
	}
	// "within seconds": net/http's Shutdown treats a connection that has not sent a request
	// as idle only once it is 5 seconds old, and polls at up to 500 ms
	if at > ref+7*time.Second {
		w.Violate("serve_return_late", "serve_return_late", "%s: Serve returned %v after cancel / last in-flight exchange (cancel at %v, last exchange %v, returned at %v)", c.Summary, at-ref, w.CancelledAt, lastExchange, at)
	}
	if snap, ok := w.Aux.(map[string]int); ok {
		if osGetenv("VERIF_C17_DEBUG") != "" {
			for _, cl := range w.Clients {
				tot := -1
				if cl.conn != nil {
					tot = cl.conn.pair.B.out.total
				}
				fmt.Fprintf(os.Stderr, "C17DBG %s: cancel=%v servedone=%v snap=%v now=%d proto=%q hs=%v errs=%v resps=%d\n", cl.Name, w.CancelledAt, at, snap[cl.Name], tot, cl.NegProto, cl.HandshakeOK, cl.StepErrs, len(cl.Resps))
			}
		}
		for ci, cl := range w.Clients {
			if cl.conn == nil || cl.NegProto == "h2" || c.Metas[ci].Kind == "h1tunnel" {
				continue // (bytes echoed through a tunnel are not an HTTP/1.1 exchange)
			}
			w.Net.mu.Lock()
			now := cl.conn.pair.B.out.total
			w.Net.mu.Unlock()
			// a TLS alert / close_notify (<= 31 bytes) may still follow on a connection that was
			// completing or failing its handshake when Serve returned; a response cannot be that short
			if before, seen := snap[cl.Name]; seen && now > before+63 {
				w.Violate("returned_with_exchange_in_flight", "returned_with_exchange_in_flight", "%s: the proxy wrote %d more bytes to HTTP/1.1 connection c%d after Serve had returned: an exchange was still in flight", c.Summary, now-before, ci)
			}
		}
		w.Probe("serve_return_snapshot_checked")
	}
	by := w.ReqsByTag()
	for _, ci := range aux.Late {
		for _, r := range c.Metas[ci].Reqs {
			if len(by[r.Tag]) > 0 {
				w.Violate("served_after_cancel", "served_after_cancel", "%s: request %s of a connection attempted after the cancellation reached the back-end", c.Summary, r.Tag)
			}
		}
		if _, _, _, ok := clientResponse(w, c, ci, 0); ok {
			w.Violate("served_after_cancel", "served_after_cancel", "%s: late client c%d received a response", c.Summary, ci)
		}
		w.Probe("late_client_checked")
	}
	// idle HTTP/1.1 connections must have been closed by the proxy
	for ci, m := range c.Metas {
		if m.Kind != "h1idle_close" && m.Kind != "h1fresh" {
			continue
		}
		cl := w.Clients[ci]
		if cl.conn == nil || !cl.HandshakeOK {
			continue
		}
		closed, after := serverClosedAfter(w, cl)
		closedAt := after + cl.ConnectedAt
		// idle keep-alive connections are closed at once; one that never sent a request counts
		// as idle once it is 5 s old; Shutdown polls at up to 500 ms
		limit := w.CancelledAt + 2*time.Second
		if m.Kind == "h1fresh" && cl.ConnectedAt+5*time.Second > w.CancelledAt {
			limit = cl.ConnectedAt + 7*time.Second
		}
		switch {
		case !closed:
			w.Violate("idle_h1_not_closed", "idle_h1_not_closed", "%s: idle HTTP/1.1 connection c%d (%s) still open %v after the cancel", c.Summary, ci, m.Kind, w.Now()-w.CancelledAt)
		case closedAt > limit:
			w.Violate("idle_h1_closed_late", "idle_h1_not_closed", "%s: idle HTTP/1.1 connection c%d (%s) was closed %v after the cancel (connected at %v, cancel at %v), not by the shutdown but by a later timeout", c.Summary, ci, m.Kind, closedAt-w.CancelledAt, cl.ConnectedAt, w.CancelledAt)
		default:
			w.Probe("idle_h1_closed_by_shutdown")
		}
	}
}

//go:build !verifdet

package harness

const detRandBuilt = false

func setDetRand(seed uint64, step int) {}
func clearDetRand()                    {}

package harness

import (
	"fmt"
	"strings"
	"time"

	"pgregory.net/rapid"
)

// Fixed sessions for fault enumeration: one HTTP/1.1 keep-alive session and
// one HTTP/2 session with two requests each, with fixed ClientHellos so that
// byte offsets and I/O operation indexes are the same in every run.

func fixedHello(proto string) *HelloPlan {
	h := &HelloPlan{VersMin: 0x0301, VersMax: 0x0304, Ciphers: []uint16{0x1301, 0x1302, 0xc02f}}
	alpn := []string{"http/1.1"}
	if proto == "h2" {
		alpn = []string{"h2", "http/1.1"}
	}
	h.Exts = []ExtPlan{
		{Kind: "sni", Str: "fixed.verif.test"},
		{Kind: "groups", U16: []uint16{29, 23}},
		{Kind: "points", U8: []uint8{0}},
		{Kind: "sigalgs", U16: []uint16{0x0804, 0x0401, 0x0403}},
		{Kind: "alpn", Strs: alpn},
		{Kind: "versions", U16: []uint16{0x0304, 0x0303}},
		{Kind: "keyshare", U16: []uint16{29}},
		{Kind: "pskmodes", U8: []uint8{1}},
	}
	return h
}

func fixedSession(kind string, ci int) (*ClientPlan, *ClientMeta) {
	cp := &ClientPlan{ID: ci, Addr: fmt.Sprintf("198.51.100.%d:%d", 10+ci, 32000+ci), Hello: fixedHello(kind)}
	m := &ClientMeta{Proto: kind, Kind: "fixed-" + kind}
	r0 := ReqSpec{Tag: fmt.Sprintf("c%d-r0", ci), Method: "GET", Path: "/a", Host: "fixed.verif.test"}
	r1 := ReqSpec{Tag: fmt.Sprintf("c%d-r1", ci), Method: "POST", Path: "/b", Host: "fixed.verif.test", Body: []byte(strings.Repeat("0123456789", 30))}
	m.Reqs = []ReqSpec{r0, r1}
	if kind == "h2" {
		enc := NewHEnc()
		pre := append([]byte(ClientPreface), FramesBytes(SettingsFrame(Setting{3, 100}, Setting{4, 1 << 20}), WindowUpdateFrame(0, 1<<20))...)
		cp.Steps = []Step{
			{Kind: "connect"},
			{Kind: "write", Pieces: [][]byte{pre}},
			{Kind: "write", Pieces: [][]byte{FramesBytes(H2RequestFrames(enc, 1, r0, nil, nil, nil, nil)...)}},
			{Kind: "h2await", Streams: []uint32{1}},
			{Kind: "write", Pieces: [][]byte{FramesBytes(H2RequestFrames(enc, 3, r1, nil, &PrioParam{Dep: 0, Weight: 15}, nil, []int{100})...)}},
			{Kind: "h2await", Streams: []uint32{3}},
			{Kind: "close"},
		}
	} else if kind == "h1up" {
		// a request, then a protocol upgrade and two messages through the tunnel
		m.Proto = "h1"
		up := ReqSpec{Tag: fmt.Sprintf("c%d-up", ci), Method: "GET", Path: "/ws", Host: "fixed.verif.test", Header: [][2]string{{"Connection", "Upgrade"}, {"Upgrade", "verif-echo"}}}
		m.Reqs = []ReqSpec{r0, up}
		cp.Steps = []Step{
			{Kind: "connect"},
			{Kind: "h1req", Pieces: [][]byte{r0.H1()}, Tag: r0.Tag},
			{Kind: "h1req", Pieces: [][]byte{up.H1()}, Tag: up.Tag},
			{Kind: "tunnel", Pieces: [][]byte{[]byte(strings.Repeat("tunnel message one ", 8))}},
			{Kind: "tunnel", Pieces: [][]byte{[]byte(strings.Repeat("tunnel message two ", 4))}},
			{Kind: "close"},
		}
	} else {
		cp.Steps = []Step{
			{Kind: "connect"},
			{Kind: "h1req", Pieces: [][]byte{r0.H1()}, Tag: r0.Tag},
			{Kind: "h1req", Pieces: [][]byte{r1.H1()}, Tag: r1.Tag},
			{Kind: "close"},
		}
	}
	return cp, m
}

// controlClient: a well-behaved client that must be served correctly.
func controlClient(kind string, ci int, after []int) (*ClientPlan, *ClientMeta) {
	cp := &ClientPlan{ID: ci, Addr: fmt.Sprintf("203.0.113.%d:%d", 10+ci, 33000+ci), Hello: fixedHello(kind), StartAfterDone: after}
	cp.Hello.Ciphers = append(cp.Hello.Ciphers, uint16(0xe200+ci))
	m := &ClientMeta{Proto: kind, Kind: "control"}
	r := ReqSpec{Tag: fmt.Sprintf("c%d-ctl", ci), Method: "GET", Path: "/control", Host: "control.verif.test"}
	m.Reqs = []ReqSpec{r}
	if kind == "h2" {
		enc := NewHEnc()
		pre := append([]byte(ClientPreface), FramesBytes(SettingsFrame())...)
		cp.Steps = []Step{{Kind: "connect"}, {Kind: "write", Pieces: [][]byte{append(pre, FramesBytes(H2RequestFrames(enc, 1, r, nil, nil, nil, nil)...)...)}}, {Kind: "h2await", Streams: []uint32{1}}, {Kind: "close"}}
	} else {
		cp.Steps = []Step{{Kind: "connect"}, {Kind: "h1req", Pieces: [][]byte{r.H1()}, Tag: r.Tag}, {Kind: "close"}}
	}
	return cp, m
}

// checkControl: the control client ci got a correct answer through the proxy.
func checkControl(w *World, c *Case, ci int, what string) {
	m := c.Metas[ci]
	status, body, hdr, ok := clientResponse(w, c, ci, 0)
	cl := w.Clients[ci]
	want := "ok:" + m.Reqs[0].Tag
	if rp := c.Plan.Backend.Resp[m.Reqs[0].Tag]; rp != nil && rp.Body != nil {
		want = string(rp.Body)
	}
	if ok && status == 200 && string(body) != want && len(want) > 200 {
		w.Violate("control_not_served", "control_not_served:"+what, "after %s the control client c%d (%s) received %d body bytes that are not the %d bytes the back-end sent", what, ci, m.Proto, len(body), len(want))
		return
	}
	if !ok || status != 200 || string(body) != want || len(hdr["x-backend-tag"]) != 1 {
		w.Violate("control_not_served", "control_not_served:"+what, "after %s the control client c%d (%s) was not served correctly: ok=%v status=%d body=%q connectErr=%q handshakeErr=%q stepErrs=%v", what, ci, m.Proto, ok, status, body, cl.ConnectErr, cl.HandshakeErr, cl.StepErrs)
		return
	}
	for _, br := range w.ReqsByTag()[m.Reqs[0].Tag] {
		h, err := ParseHelloRecord(cl.HelloRecord())
		if err != nil {
			continue
		}
		if got := br.Header.Values("X-Ja3-Fingerprint"); len(got) != 1 || got[0] != h.JA3() {
			w.Violate("control_fingerprint", "control_fingerprint", "after %s the control client's X-JA3-Fingerprint is %q, want %q", what, got, h.JA3())
		}
	}
	w.Probe("control_served")
}

var leakPatterns = []string{"httputil.switchProtocolCopier", "httputil.(*ReverseProxy)", "proxyserver.(*Server).serveConn", "http2.(*serverConn)", "net/http.(*conn).serve", "net/http.(*persistConn)", "hack.(*ChannelListener).SendToChannel", "http2.(*Server).ServeConn"}

// checkReleased: every front connection has been closed by the proxy and no
// goroutine serving a connection is left.  Advances simulated time as needed
// (bounded) and reports how long it took.
func checkReleased(w *World, what string) {
	budget := []int{2, 5, 60, 150}
	settled := -1
	total := 0
	for _, s := range budget {
		w.SettleTime(s)
		total += s
		open := 0
		w.Net.mu.Lock()
		for _, name := range w.Net.names {
			if strings.HasPrefix(name, "c") && !w.Net.pairs[name].B.closed {
				open++
			}
		}
		w.Net.mu.Unlock()
		if open == 0 && len(Census(leakPatterns...)) == 0 {
			settled = total
			break
		}
	}
	if settled < 0 {
		var open []string
		w.Net.mu.Lock()
		for _, name := range w.Net.names {
			if strings.HasPrefix(name, "c") && !w.Net.pairs[name].B.closed {
				open = append(open, name)
			}
		}
		w.Net.mu.Unlock()
		gs := Census(leakPatterns...)
		first := ""
		if len(gs) > 0 {
			first = gs[0]
			if len(first) > 1500 {
				first = first[:1500]
			}
		}
		var tops []string
		for _, g := range gs {
			ls := strings.SplitN(g, "\n", 3)
			if len(ls) >= 2 {
				tops = append(tops, strings.TrimSuffix(ls[0], ":")+" "+ls[1])
			}
		}
		w.Violate("not_released", "not_released", "%s: %d s of simulated time after every client had gone, connections still open on the proxy side: %v; goroutines still serving connections: %d %v; first:\n%s", what, total, open, len(gs), tops, first)
		return
	}
	if settled > 7 {
		w.Probe("release_needed_more_than_7s")
	}
	w.Probe("released")
}

// ----------------------------------------------------------------- C11

func init() {
	register(&CheckDef{ID: "C11", Level: "fault_enumeration", Engine: "A", Draw: drawC11,
		Rule:     "random part: 1-8 connections of random kinds (C16 kinds) in parallel, aborted by FIN or RST at random byte offsets or stalled, handshake timeout in {off,1s,10s} and idle timeout in {2s,30s,180s} through the real flags; oracle: once every client has gone and simulated time has advanced (<= 217 s) every accepted connection has been closed by the proxy and the goroutine census (stable at quiescence) shows no serveConn / http2 serverConn / net/http conn / persistConn goroutine. Non-trivial: at least one fault fired. Distinct: distinct controller action-label sequences.",
		EnumRule: "enumerated part: a client abort (FIN and RST) at EVERY byte offset of the client->proxy stream of a fixed HTTP/1.1 session, a fixed HTTP/2 session (two requests each) and a fixed HTTP/1.1 session that upgrades the protocol (101 through the reverse proxy, then two messages through the tunnel); a silent stall at every byte offset of the handshake for handshake timeouts 1s and 10s (the proxy must hang up at the timeout, not earlier), and a handshake whose first flight trickles in one byte every quarter of the timeout (cut at the timeout all the same); a silent stall at EVERY byte offset of the three sessions that lasts 12 s or 75 s before the client goes away by FIN or RST (everything must be released afterwards); an idle connection after served requests for idle timeouts 2s and 30s on both protocols, the last stream ending normally, by a client RST_STREAM, by a server RST_STREAM, with a HEADERS frame refused before a stream exists, or after two streams that were open at the same time (the proxy must close it at the timeout). Quick tier: stride sample; thorough tier: every index.",
		Enum:     &EnumDef{Params: faultParams, Count: c11Count, Case: c11Case}})
}

func faultParams(run func(c *Case) *World) map[string]int {
	params := map[string]int{}
	for _, kind := range []string{"h1", "h2", "h1up"} {
		cp, m := fixedSession(kind, 0)
		p := &Plan{Check: "params", Clients: []*ClientPlan{cp}}
		c := &Case{Plan: p, Metas: []*ClientMeta{m}}
		c.Oracle = func(w *World, c *Case) {
			cl := w.Clients[0]
			w.Net.mu.Lock()
			defer w.Net.mu.Unlock()
			params[kind+"_total"] = cl.conn.out.total
			params[kind+"_hs"] = cl.HandshakeBytes
			b := cl.conn.pair.B
			params[kind+"_rops"] = b.ReadOps
			params[kind+"_wops"] = b.WriteOps
			params[kind+"_dops"] = b.DeadlineOps
			params[kind+"_reqs"] = len(w.BackReqs)
		}
		run(c)
	}
	return params
}

type faultCase struct {
	Kind    string // abort, stall_hs, stall_abort, idle, trickle_hs
	Session string
	How     string
	Off     int
	Timeout int
	Wait    int // stall_abort: seconds of silence before the client goes away
}

func c11Decode(p map[string]int, i int) faultCase {
	for _, s := range []string{"h1", "h2", "h1up"} {
		n := 2 * (p[s+"_total"] + 1)
		if i < n {
			return faultCase{Kind: "abort", Session: s, How: []string{"fin", "rst"}[i%2], Off: i / 2}
		}
		i -= n
	}
	for _, s := range []string{"h1", "h2"} {
		n := 2 * p[s+"_hs"]
		if i < n {
			return faultCase{Kind: "stall_hs", Session: s, Timeout: []int{1, 10}[i%2], Off: i / 2}
		}
		i -= n
	}
	for _, s := range []string{"h1", "h2", "h1up"} {
		n := 2 * (p[s+"_total"] + 1)
		if i < n {
			return faultCase{Kind: "stall_abort", Session: s, How: []string{"fin", "rst"}[(i/2)%2], Off: i / 2, Wait: []int{12, 75}[i%2]}
		}
		i -= n
	}
	if i >= 12 {
		// a handshake that never ends but never falls silent either: after Off bytes the client's
		// first flight arrives one byte every quarter of the handshake timeout
		i -= 12
		return faultCase{Kind: "trickle_hs", Session: []string{"h1", "h2"}[i%2], Timeout: []int{1, 10}[i/2%2], Off: []int{1, 7}[i/4%2]}
	}
	s := []string{"h1", "h2", "h2", "h2", "h2", "h2"}[i/2%6]
	how := []string{"", "", "client_rst", "server_rst", "refused", "overlap"}[i/2%6]
	return faultCase{Kind: "idle", Session: s, How: how, Timeout: []int{2, 30}[i%2]}
}

func c11Count(p map[string]int) int {
	return 4*(p["h1_total"]+1) + 4*(p["h2_total"]+1) + 4*(p["h1up_total"]+1) + 2*p["h1_hs"] + 2*p["h2_hs"] + 12 + 8
}

func c11Case(p map[string]int, i int) *Case {
	fc := c11Decode(p, i)
	plan := &Plan{Check: "C11", Tail: uint64(i)*2654435761 + 1}
	cp, m := fixedSession(fc.Session, 0)
	c := &Case{Plan: plan, Metas: []*ClientMeta{m}, Aux: fc}
	c.Summary = fmt.Sprintf("enum %d: %+v", i, fc)
	switch fc.Kind {
	case "abort":
		cp.AbortKind, cp.AbortAt = fc.How, fc.Off
		c.Oracle = func(w *World, c *Case) { checkReleased(w, c.Summary) }
		c.Nontrivial = func(w *World, c *Case) bool { return w.Clients[0].aborted }
	case "stall_hs":
		cp.StallOn, cp.StallAt = true, fc.Off
		cp.Steps = []Step{{Kind: "connect_bg"}, {Kind: "hswait"}, {Kind: "readeof"}, {Kind: "close"}}
		plan.Args = []string{"-timeout-tls-handshake", fmt.Sprintf("%ds", fc.Timeout)}
		c.Oracle = func(w *World, c *Case) {
			cl := w.Clients[0]
			T := time.Duration(fc.Timeout) * time.Second
			closed, took := serverClosedAfter(w, cl)
			if !closed || w.Stuck {
				w.Violate("stalled_handshake_not_cut", "stalled_handshake_not_cut", "%s: handshake stalled after %d bytes was not cut by the proxy (server side closed=%v, client handshake err=%q, stuck=%v)", c.Summary, fc.Off, closed, cl.HandshakeErr, w.Stuck)
			} else if took < T || took > T+time.Second {
				w.Violate("handshake_timeout_time", "handshake_timeout_time", "%s: stalled handshake was cut after %v, configured timeout %v", c.Summary, took, T)
			}
			checkReleased(w, c.Summary)
		}
		c.Nontrivial = func(w *World, c *Case) bool { return w.Clients[0].stalled }
	case "trickle_hs":
		cp.StallOn, cp.StallAt = true, fc.Off
		cp.Steps = []Step{{Kind: "connect_bg"}, {Kind: "hswait"}, {Kind: "readeof"}, {Kind: "close"}}
		plan.Args = []string{"-timeout-tls-handshake", fmt.Sprintf("%ds", fc.Timeout)}
		T := time.Duration(fc.Timeout) * time.Second
		plan.Setup = func(w *World) {
			quit := make(chan struct{})
			old := w.OnTeardown
			w.OnTeardown = func() {
				close(quit)
				if old != nil {
					old()
				}
			}
			go func() {
				for {
					select {
					case <-quit:
						return
					case <-time.After(T / 4):
					}
					w.mu.Lock()
					cp.StallAt++ // one more byte of the flight may be delivered
					w.mu.Unlock()
					w.Net.fired("client_trickle_byte")
				}
			}()
		}
		c.Oracle = func(w *World, c *Case) {
			cl := w.Clients[0]
			closed, took := serverClosedAfter(w, cl)
			if !closed || w.Stuck {
				w.Violate("stalled_handshake_not_cut", "stalled_handshake_not_cut:trickle", "%s: a handshake whose first flight arrives one byte every %v was not cut by the proxy (server side closed=%v, client handshake err=%q, stuck=%v)", c.Summary, T/4, closed, cl.HandshakeErr, w.Stuck)
			} else if took < T || took > T+time.Second {
				w.Violate("handshake_timeout_time", "handshake_timeout_time", "%s: trickling handshake was cut after %v, configured timeout %v", c.Summary, took, T)
			}
			checkReleased(w, c.Summary)
		}
		c.Nontrivial = func(w *World, c *Case) bool { return w.Clients[0].stalled }
	case "stall_abort":
		// the client falls silent after Off bytes (whatever step of the handshake or of
		// the HTTP traffic that is), stays connected for Wait seconds, then goes away
		cp.StallOn, cp.StallAt = true, fc.Off
		c.Oracle = func(w *World, c *Case) {
			cl := w.Clients[0]
			w.SettleTime(fc.Wait)
			if !cl.aborted && cl.conn != nil {
				// the silence ends with the client leaving: its FIN / RST does arrive
				cl.Plan.AbortKind = fc.How
				cl.Plan.StallOn = false
				w.abortClient(cl)
			}
			checkReleased(w, c.Summary)
		}
		c.Nontrivial = func(w *World, c *Case) bool { return w.Clients[0].stalled || w.Clients[0].Done() }
	case "idle":
		plan.Args = []string{"-timeout-http-idle", fmt.Sprintf("%ds", fc.Timeout)}
		// serve the two requests, then stay idle until the proxy hangs up
		steps := cp.Steps[:len(cp.Steps)-1]
		cp.Steps = append([]Step{}, steps...)
		switch fc.How {
		case "overlap":
			// two streams open at the same time before the silence: the first one's answer is
			// held back in the back-end until the second request has arrived as well
			plan.Backend.Resp = map[string]*RespPlan{"c0-r2": {Status: 200, Body: []byte("held"), Hold: true}}
			enc := NewHEnc()
			enc.enc.SetMaxDynamicTableSize(0)
			r2 := ReqSpec{Tag: "c0-r2", Method: "GET", Path: "/c", Host: "fixed.verif.test"}
			r3 := ReqSpec{Tag: "c0-r3", Method: "GET", Path: "/d", Host: "fixed.verif.test"}
			fs := append(H2RequestFrames(enc, 5, r2, nil, nil, nil, nil), H2RequestFrames(enc, 7, r3, nil, nil, nil, nil)...)
			cp.Steps = append(cp.Steps, Step{Kind: "write", Pieces: [][]byte{FramesBytes(fs...)}}, Step{Kind: "h2await", Streams: []uint32{5, 7}})
		case "client_rst":
			// the last stream to close is one the client cancels while its handler is parked
			plan.Backend.Resp = map[string]*RespPlan{"c0-r2": {Status: 200, Body: []byte("never"), Park: true}}
			enc := NewHEnc()
			enc.enc.SetMaxDynamicTableSize(0)
			r2 := ReqSpec{Tag: "c0-r2", Method: "GET", Path: "/c", Host: "fixed.verif.test"}
			fs := H2RequestFrames(enc, 5, r2, nil, nil, nil, nil)
			cp.Steps = append(cp.Steps, Step{Kind: "write", Pieces: [][]byte{FramesBytes(fs...)}}, Step{Kind: "write", Pieces: [][]byte{FramesBytes(RSTFrame(5, ErrCancel))}, WhenQuiet: true})
		case "refused":
			// the last thing before the silence is a HEADERS frame the server refuses without
			// ever opening a stream for it (its priority names its own stream)
			enc := NewHEnc()
			enc.enc.SetMaxDynamicTableSize(0)
			fields := [][2]string{{":method", "GET"}, {":scheme", "https"}, {":authority", "fixed.verif.test"}, {":path", "/e"}, {"x-tag", "c0-r2"}}
			fs := HeadersFrames(5, enc.Block(fields), true, &PrioParam{Dep: 5, Weight: 10}, -1, nil)
			cp.Steps = append(cp.Steps, Step{Kind: "write", Pieces: [][]byte{FramesBytes(fs...)}}, Step{Kind: "h2await", Streams: []uint32{5}})
		case "server_rst":
			// the last stream to close is one the server resets (more DATA than the declared content-length)
			enc := NewHEnc()
			enc.enc.SetMaxDynamicTableSize(0)
			fields := [][2]string{{":method", "POST"}, {":scheme", "https"}, {":authority", "fixed.verif.test"}, {":path", "/d"}, {"x-tag", "c0-r2"}, {"content-length", "2"}}
			fs := HeadersFrames(5, enc.Block(fields), false, nil, -1, nil)
			fs = append(fs, DataFrame(5, []byte("too much"), true, -1))
			cp.Steps = append(cp.Steps, Step{Kind: "write", Pieces: [][]byte{FramesBytes(fs...)}}, Step{Kind: "h2await", Streams: []uint32{5}})
		}
		cp.Steps = append(cp.Steps, Step{Kind: "readeof"}, Step{Kind: "close"})
		c.Oracle = func(w *World, c *Case) {
			cl := w.Clients[0]
			T := time.Duration(fc.Timeout) * time.Second
			closed, took := serverClosedAfter(w, cl)
			if !closed || !cl.ReadEnded || w.Stuck {
				w.Violate("idle_not_closed", "idle_not_closed:"+fc.Session, "%s: a %s connection idle after two served requests was not closed by the proxy (idle timeout %v; simulated time now %v)", c.Summary, fc.Session, T, w.Now())
			} else if took < T || took > T+2*time.Second {
				w.Violate("idle_timeout_time", "idle_timeout_time", "%s: idle connection closed after %v, configured idle timeout %v", c.Summary, took, T)
			}
			if len(w.BackReqs) < 2 {
				w.Violate("harness", "harness", "idle case: %d requests served", len(w.BackReqs))
			}
			checkReleased(w, c.Summary)
		}
		c.Nontrivial = func(w *World, c *Case) bool { return len(w.BackReqs) >= 2 }
	}
	plan.Clients = []*ClientPlan{cp}
	return c
}

func drawC11(t *rapid.T) *Case {
	p := &Plan{Check: "C11"}
	args, hs, _ := drawTimeoutArgs(t)
	p.Args = args
	n := rapid.IntRange(1, 8).Draw(t, "nconn")
	var metas []*ClientMeta
	var kinds []string
	for ci := 0; ci < n; ci++ {
		kind := connKinds[rapid.IntRange(0, len(connKinds)-1).Draw(t, "kind")]
		if kind == "stall_wait" && hs == 0 {
			kind = "stall_close"
		}
		cp, m := DrawConnClient(t, ci, kind, hs)
		if cp.Hello != nil && drawBool(t, "abort", 50) {
			cp.AbortKind = []string{"fin", "rst"}[rapid.IntRange(0, 1).Draw(t, "abortkind")]
			cp.AbortAt = rapid.IntRange(0, 1500).Draw(t, "abortat")
		}
		p.Clients = append(p.Clients, cp)
		metas = append(metas, m)
		kinds = append(kinds, fmt.Sprintf("%s/%s@%d", kind, cp.AbortKind, cp.AbortAt))
	}
	p.Fences = drawBool(t, "fences", 30)
	// park request handlers and the serve loop around their critical sections on the captured frames
	p.CaptureFences = drawBool(t, "capturefences", 25)
	p.BackendKeepAlive = false
	p.Tape, p.Tail = drawTape(t, 96)
	c := &Case{Plan: p, Metas: metas}
	c.Summary = fmt.Sprintf("args=%v conns=%v", p.Args, kinds)
	c.Oracle = func(w *World, c *Case) { checkReleased(w, c.Summary) }
	c.Nontrivial = func(w *World, c *Case) bool {
		for _, cl := range w.Clients {
			if cl.aborted {
				return true
			}
		}
		return len(w.Net.Faults) > 0
	}
	return c
}

// ----------------------------------------------------------------- C10

func init() {
	register(&CheckDef{ID: "C10", Level: "fault_enumeration", Engine: "A", Draw: drawC10,
		Rule:     "random part: a faulty client (random bytes on the raw TCP connection; random / mutated / truncated HTTP/2 frame bytes or HTTP/1.1 garbage inside a real TLS session; abort at a random offset; injected I/O error or callback panic; one kind in seven: an HTTP/2 client that cancels 1-4 downloads of 20-300 kB as soon as their response headers have arrived, with every frame write held in flight by the controller, next to control clients that fetch answers of 5-60 kB compared byte for byte; 35%: back-end answers that outlive drawn -timeout-http-read / -timeout-http-write values) runs next to a concurrent control client and before a second control client; oracle: the worker process is alive and both control clients are served with correct fingerprints. Non-trivial: a fault fired or garbage was sent. Distinct: distinct controller action-label sequences.",
		EnumRule: "enumerated part: 9360 boundary frames (every frame type 0-9 x 8 flag sets x length 0-12 x 9 pad-length octets around the frame length and around length minus the fixed fields) behind a legal preface and an open stream; 156 frames (every type 0-12 x 4 flag sets x own / other / zero stream) sent between a HEADERS frame without END_HEADERS and its CONTINUATION, and 52 two-frame cases there (a WINDOW_UPDATE with increment 0 on a stream - a stream error the frame reader survives - followed by a frame of every type); then, over a fixed HTTP/1.1 session, a fixed HTTP/2 session and a fixed HTTP/1.1 session that upgrades the protocol and sends two messages through the tunnel: client disconnect (FIN and RST) after EVERY byte offset; a read error (ECONNRESET / timeout / generic), a write error (EPIPE / timeout) and a deadline-setter error at EVERY I/O operation index of the proxy side of the connection; a panic at EVERY occurrence of each user callback reachable from the connection goroutine (GetConfigForClient, GetCertificate, ConnState, header injector, request handler). After each case a control client performs a full request on a fresh connection. Quick tier: stride sample; thorough tier: every index.",
		Enum:     &EnumDef{Params: faultParams, Count: c10Count, Case: c10Case}})
}

type c10Fault struct {
	Kind    string // abort, read, write, deadline, panic
	Session string
	How     string
	Idx     int
}

var readKinds = []string{"reset", "timeout", "generic"}
var writeKinds = []string{"pipe", "timeout"}
var panicSites = []string{"getconfig", "getcert", "connstate", "injector", "handler"}

func panicOccurrences(p map[string]int, s, site string) int {
	switch site {
	case "getconfig", "getcert":
		return 1
	case "connstate":
		// new, active, idle, active, idle, closed (+ hijack-free HTTP/2 transitions): a few spare
		return 9
	}
	return 2
}

func c10Decode(p map[string]int, i int) c10Fault {
	if i < nBoundaryFrames {
		return c10Fault{Kind: "frame", Session: "h2", Idx: i}
	}
	i -= nBoundaryFrames
	if i < nInBlockFrames {
		return c10Fault{Kind: "inblock", Session: "h2", Idx: i}
	}
	i -= nInBlockFrames
	for _, s := range []string{"h1", "h2", "h1up"} {
		n := 2 * (p[s+"_total"] + 1)
		if i < n {
			return c10Fault{Kind: "abort", Session: s, How: []string{"fin", "rst"}[i%2], Idx: i / 2}
		}
		i -= n
		n = len(readKinds) * p[s+"_rops"]
		if i < n {
			return c10Fault{Kind: "read", Session: s, How: readKinds[i%len(readKinds)], Idx: 1 + i/len(readKinds)}
		}
		i -= n
		n = len(writeKinds) * p[s+"_wops"]
		if i < n {
			return c10Fault{Kind: "write", Session: s, How: writeKinds[i%len(writeKinds)], Idx: 1 + i/len(writeKinds)}
		}
		i -= n
		n = p[s+"_dops"]
		if i < n {
			return c10Fault{Kind: "deadline", Session: s, Idx: 1 + i}
		}
		i -= n
	}
	// the callback panics of both sessions sit at the very end of the index space
	// (the quick tier always runs the last 64 indexes)
	for _, s := range []string{"h1", "h2", "h1up"} {
		for _, site := range panicSites {
			n := panicOccurrences(p, s, site)
			if i < n {
				return c10Fault{Kind: "panic", Session: s, How: site, Idx: 1 + i}
			}
			i -= n
		}
	}
	return c10Fault{Kind: "none"}
}

var boundaryFlags = []uint8{0x8, 0x28, 0x20, 0x9, 0x2d, 0x0, 0x4, 0x1}

const nBoundaryFrames = 10 * 8 * 13 * 9

// frames of every type 0-12 (four flag sets, on the block's stream / another stream / stream 0)
// sent where only a CONTINUATION may follow: between a HEADERS frame without END_HEADERS and
// its CONTINUATION
// ... and 52 two-frame cases: a WINDOW_UPDATE with increment 0 for a stream (own / other), which
// the frame parser refuses with a stream error - an error the reader survives -, padded or not
// with the END_HEADERS bit, then a frame of every type 0-12
const nInBlockFrames = 13*4*3 + 13*2*2

func inBlockFrames(i int) []byte {
	if i < 13*4*3 {
		return inBlockFrame(i).Bytes()
	}
	i -= 13 * 4 * 3
	wu := Frame{Type: FWindowUpdate, Stream: []uint32{1, 3}[i%2], Payload: []byte{0, 0, 0, 0}}
	i /= 2
	if i%2 == 1 {
		wu.Flags = 0x4
	}
	i /= 2
	return append(wu.Bytes(), inBlockFrame(i%13).Bytes()...)
}

func inBlockFrame(i int) Frame {
	typ := uint8(i % 13)
	i /= 13
	flags := []uint8{0, 0x4, 0x1, 0x2d}[i%4]
	i /= 4
	stream := []uint32{1, 3, 0}[i%3]
	ln := map[uint8]int{FData: 3, FHeaders: 1, FPriority: 5, FRSTStream: 4, FSettings: 0, FPushPromise: 5, FPing: 8, FGoAway: 8, FWindowUpdate: 4, FContinuation: 1}[typ]
	pl := make([]byte, ln)
	if typ == FWindowUpdate || typ == FPriority {
		pl[3] = 1
	}
	if typ == FContinuation || typ == FHeaders {
		pl[0] = 0x82
	}
	return Frame{Type: typ, Flags: flags, Stream: stream, Payload: pl}
}

func boundaryFrame(i int) Frame {
	typ := uint8(i % 10)
	i /= 10
	flags := boundaryFlags[i%8]
	i /= 8
	ln := i % 13
	i /= 13
	padSel := i % 9
	pl := make([]byte, ln)
	for k := range pl {
		pl[k] = byte(k * 17)
	}
	if ln > 0 {
		pl[0] = byte([]int{0, ln - 1, ln, ln + 1, 255, ln - 2, ln - 5, ln - 6, ln - 7}[padSel] & 0xff)
	}
	stream := uint32(1) // an open stream
	if ln%2 == 1 {
		stream = 3 // a new stream
	}
	if typ == FSettings || typ == FPing || typ == FGoAway {
		stream = 0
	}
	return Frame{Type: typ, Flags: flags, Stream: stream, Payload: pl}
}

func c10Count(p map[string]int) int {
	n := nBoundaryFrames + nInBlockFrames
	for _, s := range []string{"h1", "h2", "h1up"} {
		n += 2*(p[s+"_total"]+1) + len(readKinds)*p[s+"_rops"] + len(writeKinds)*p[s+"_wops"] + p[s+"_dops"]
		for _, site := range panicSites {
			n += panicOccurrences(p, s, site)
		}
	}
	return n
}

func c10Case(p map[string]int, i int) *Case {
	fc := c10Decode(p, i)
	plan := &Plan{Check: "C10", Tail: uint64(i)*2654435761 + 7}
	cp, m := fixedSession(fc.Session, 0)
	// an injected fault may leave the faulty client without an answer for ever (e.g. a failed
	// SetReadDeadline inside net/http's Hijack): like a real client it gives up after a while
	cp.RespTimeoutS = 30
	ctlKind := []string{"h1", "h2"}[i%2]
	c1, m1 := controlClient(ctlKind, 1, nil)                        // concurrent
	c2, m2 := controlClient([]string{"h2", "h1"}[i%2], 2, []int{0}) // afterwards, fresh connection
	plan.Faults.Front = map[int]ConnFaults{}
	plan.Faults.PanicAt = map[string]int{}
	switch fc.Kind {
	case "frame":
		// a frame whose type / flags / length / pad-length octet sit on a parser boundary,
		// sent behind a legal preface and one open stream
		bf := boundaryFrame(fc.Idx)
		enc := NewHEnc()
		r0 := ReqSpec{Tag: "c0-r0", Method: "POST", Path: "/open", Host: "fixed.verif.test"}
		pre := append([]byte(ClientPreface), FramesBytes(SettingsFrame())...)
		hs := HeadersFrames(1, enc.Block([][2]string{{":method", "POST"}, {":scheme", "https"}, {":authority", r0.Host}, {":path", r0.Path}, {"x-tag", r0.Tag}}), false, nil, -1, nil)
		cp.Steps = []Step{{Kind: "connect"}, {Kind: "write", Pieces: [][]byte{append(pre, FramesBytes(hs...)...)}}, {Kind: "write", Pieces: [][]byte{bf.Bytes()}}, {Kind: "readeof"}, {Kind: "close"}}
		m.Reqs = nil
		plan.Args = []string{"-timeout-http-idle", "2s"}
	case "inblock":
		// a frame where only a CONTINUATION may follow: HEADERS without END_HEADERS, the
		// frame, then the CONTINUATION that would have completed the block
		bf := inBlockFrames(fc.Idx)
		enc := NewHEnc()
		pre := append([]byte(ClientPreface), FramesBytes(SettingsFrame())...)
		block := enc.Block([][2]string{{":method", "GET"}, {":scheme", "https"}, {":authority", "fixed.verif.test"}, {":path", "/inblock"}, {"x-tag", "c0-r0"}, {"x-fill", strings.Repeat("f", 40)}})
		hs := HeadersFrames(1, block, true, nil, -1, []int{7})
		cp.Steps = []Step{{Kind: "connect"}, {Kind: "write", Pieces: [][]byte{append(pre, hs[0].Bytes()...)}}, {Kind: "write", Pieces: [][]byte{bf}}, {Kind: "write", Pieces: [][]byte{FramesBytes(hs[1:]...)}}, {Kind: "readeof"}, {Kind: "close"}}
		m.Reqs = nil
		plan.Args = []string{"-timeout-http-idle", "2s"}
	case "abort":
		cp.AbortKind, cp.AbortAt = fc.How, fc.Idx
	case "read":
		plan.Faults.Front[0] = ConnFaults{ReadErrAt: fc.Idx, ReadErrKind: fc.How}
	case "write":
		plan.Faults.Front[0] = ConnFaults{WriteErrAt: fc.Idx, WriteErrKind: fc.How}
	case "deadline":
		plan.Faults.Front[0] = ConnFaults{DeadlineErrAt: fc.Idx}
	case "panic":
		plan.Faults.PanicAt[fc.How] = fc.Idx
		plan.Faults.PanicAddr = tcpAddr(cp.Addr).String()
		// the panicking callback must belong to the faulty connection: the control
		// clients start only after it has finished
		c1.StartAfterDone = []int{0}
	}
	plan.Clients = []*ClientPlan{cp, c1, c2}
	c := &Case{Plan: plan, Metas: []*ClientMeta{m, m1, m2}, Aux: fc}
	c.Summary = fmt.Sprintf("enum %d: %+v", i, fc)
	c.Oracle = func(w *World, c *Case) {
		checkControl(w, c, 1, c.Summary)
		checkControl(w, c, 2, c.Summary)
	}
	c.Nontrivial = func(w *World, c *Case) bool {
		return w.Clients[0].aborted || len(w.Net.Faults) > 0 || fc.Kind == "frame" || fc.Kind == "inblock"
	}
	return c
}

func drawC10(t *rapid.T) *Case {
	p := &Plan{Check: "C10"}
	p.Faults.Front = map[int]ConnFaults{}
	p.Faults.PanicAt = map[string]int{}
	var cp *ClientPlan
	var m *ClientMeta
	var slowTags []string
	what := ""
	bigControl := false
	switch rapid.IntRange(0, 6).Draw(t, "faulty") {
	case 6:
		// an HTTP/2 client that cancels large downloads as soon as their response headers have
		// arrived, while DATA frames of theirs are being written (write fence): whatever a
		// cancelled stream leaves behind - queued frames, pooled objects, write results - must
		// not touch what other connections are served (wave 12, C10-t); the control clients
		// fetch multi-frame answers in these runs (below the 65535 octets an HTTP/2 client grants by default)
		bigControl = true
		p.WriteFences = true
		cp = &ClientPlan{ID: 0, Addr: "198.51.100.10:32000", Hello: fixedHello("h2")}
		m = &ClientMeta{Proto: "h2", Kind: "h2cancel"}
		enc := NewHEnc()
		pre := append([]byte(ClientPreface), FramesBytes(SettingsFrame(Setting{4, 1 << 30}), WindowUpdateFrame(0, 1<<30))...)
		cp.Steps = []Step{{Kind: "connect"}, {Kind: "write", Pieces: [][]byte{pre}}}
		if p.Backend.Resp == nil {
			p.Backend.Resp = map[string]*RespPlan{}
		}
		for k, n := 0, rapid.IntRange(1, 4).Draw(t, "ncancel"); k < n; k++ {
			r := ReqSpec{Tag: fmt.Sprintf("c0-r%d", k), Method: "GET", Path: fmt.Sprintf("/big%d", k), Host: "fixed.verif.test"}
			m.Reqs = append(m.Reqs, r)
			p.Backend.Resp[r.Tag] = &RespPlan{Status: 200, Body: bodyBytes(r.Tag, []int{20000, 70000, 300000}[rapid.IntRange(0, 2).Draw(t, "cancelsz")])}
			id := uint32(2*k + 1)
			cp.Steps = append(cp.Steps,
				Step{Kind: "write", Pieces: [][]byte{FramesBytes(H2RequestFrames(enc, id, r, nil, nil, nil, nil)...)}},
				Step{Kind: "h2headers", Streams: []uint32{id}},
				Step{Kind: "write", Pieces: [][]byte{FramesBytes(RSTFrame(id, ErrCancel))}})
		}
		cp.Steps = append(cp.Steps, Step{Kind: "close"})
		what = "h2 client cancelling downloads under writes in flight"
	case 0:
		cp, m = DrawConnClient(t, 0, "garbage", 1)
		what = "raw garbage"
	case 1:
		cp, m = DrawConnClient(t, 0, "plainhttp", 1)
		what = "plain http"
	case 2, 3:
		// garbage / mutated frames inside a TLS session that negotiated h2
		cp = &ClientPlan{ID: 0, Addr: "198.51.100.10:32000", Hello: DrawHello(t, HelloOpts{Proto: "h2"})}
		m = &ClientMeta{Proto: "h2", Kind: "h2garbage"}
		sc := DrawH2Script(t, H2GenOpts{ClientID: 0, MaxReqs: 3, Bodies: true, ExtraMax: 2})
		for _, r := range sc.Reqs {
			slowTags = append(slowTags, r.Spec.Tag)
		}
		var stream []byte
		stream = append(stream, ClientPreface...)
		for _, g := range sc.Groups {
			stream = append(stream, FramesBytes(g...)...)
		}
		nm := rapid.IntRange(1, 6).Draw(t, "nmut")
		if drawBool(t, "boundarystorm", 35) {
			nm = rapid.IntRange(10, 40).Draw(t, "nmutmany")
		}
		for k := 0; k < nm; k++ {
			mk := rapid.IntRange(0, 5).Draw(t, "mutkind")
			if nm >= 10 {
				mk = 4 // a storm of boundary frames (truncation would cut them off)
			}
			switch mk {
			case 4, 5:
				// a frame whose length / padding / flags sit on a parser boundary
				typ := uint8(rapid.IntRange(0, 9).Draw(t, "bt"))
				ln := rapid.IntRange(0, 12).Draw(t, "bl")
				pl := make([]byte, ln)
				for i := range pl {
					pl[i] = byte(rapid.IntRange(0, 255).Draw(t, "bb"))
				}
				if ln > 0 {
					// pad-length octet around the frame length and around length minus the fixed fields
					pl[0] = byte([]int{0, ln - 1, ln, ln + 1, 255, ln - 2, ln - 5, ln - 6, ln - 7}[rapid.IntRange(0, 8).Draw(t, "bpad")] & 0xff)
				}
				flags := []uint8{0x8, 0x28, 0x20, 0x9, 0x2d, 0x0, 0x4, 0x1}[rapid.IntRange(0, 7).Draw(t, "bf")]
				sid := uint32(rapid.IntRange(0, 5).Draw(t, "bs"))
				stream = append(stream, Frame{Type: typ, Flags: flags, Stream: sid, Payload: pl}.Bytes()...)
			case 0: // flip a byte
				pos := rapid.IntRange(0, len(stream)-1).Draw(t, "mpos")
				stream[pos] ^= byte(rapid.IntRange(1, 255).Draw(t, "mxor"))
			case 1: // truncate
				stream = stream[:rapid.IntRange(1, len(stream)).Draw(t, "mtrunc")]
			case 2: // insert random bytes
				pos := rapid.IntRange(0, len(stream)).Draw(t, "mipos")
				ins := rapid.SliceOfN(rapid.Byte(), 1, 40).Draw(t, "mins")
				stream = append(stream[:pos:pos], append(ins, stream[pos:]...)...)
			case 3: // a frame with random header fields
				f := Frame{Type: uint8(rapid.IntRange(0, 12).Draw(t, "ft")), Flags: uint8(rapid.IntRange(0, 255).Draw(t, "ff")), Stream: uint32(rapid.IntRange(0, 9).Draw(t, "fs")), Payload: rapid.SliceOfN(rapid.Byte(), 0, 40).Draw(t, "fp")}
				stream = append(stream, f.Bytes()...)
			}
			if len(stream) == 0 {
				stream = []byte{0}
			}
		}
		cp.Steps = []Step{{Kind: "connect"}, {Kind: "write", Pieces: [][]byte{stream}}, {Kind: "readeof"}, {Kind: "close"}}
		if drawBool(t, "noread", 40) {
			cp.Steps = []Step{{Kind: "connect"}, {Kind: "write", Pieces: [][]byte{stream}}, {Kind: "close"}}
		}
		what = "mutated h2 transcript"
	case 4:
		// HTTP/1.1 garbage inside TLS
		cp = &ClientPlan{ID: 0, Addr: "198.51.100.10:32000", Hello: DrawHello(t, HelloOpts{Proto: "h1"})}
		m = &ClientMeta{Proto: "h1", Kind: "h1garbage"}
		b := rapid.SliceOfN(rapid.Byte(), 1, 200).Draw(t, "h1garbage")
		if drawBool(t, "h1prefix", 60) {
			b = append([]byte("GET / HTTP/1.1\r\nHost: x\r\n"), b...)
		}
		cp.Steps = []Step{{Kind: "connect"}, {Kind: "write", Pieces: [][]byte{b}}, {Kind: "close"}}
		what = "h1 garbage"
	case 5:
		kind := []string{"h1", "h2", "h1up"}[rapid.IntRange(0, 2).Draw(t, "sess")]
		cp, m = fixedSession(kind, 0)
		cp.RespTimeoutS = 30
		slowTags = []string{"c0-r0", "c0-r1"}
		switch rapid.IntRange(0, 3).Draw(t, "fk") {
		case 0:
			cp.AbortKind = []string{"fin", "rst"}[rapid.IntRange(0, 1).Draw(t, "ak")]
			cp.AbortAt = rapid.IntRange(0, 1200).Draw(t, "aoff")
		case 1:
			p.Faults.Front[0] = ConnFaults{ReadErrAt: rapid.IntRange(1, 30).Draw(t, "rat"), ReadErrKind: readKinds[rapid.IntRange(0, 2).Draw(t, "rk")],
				WriteErrAt: rapid.IntRange(0, 20).Draw(t, "wat"), WriteErrKind: writeKinds[rapid.IntRange(0, 1).Draw(t, "wk")]}
		case 2:
			p.Faults.Front[0] = ConnFaults{ShortReadMax: rapid.IntRange(1, 7).Draw(t, "short")}
		}
		what = "fixed session with fault"
	}
	c1, m1 := controlClient([]string{"h1", "h2"}[rapid.IntRange(0, 1).Draw(t, "ctl1")], 1, nil)
	c2, m2 := controlClient([]string{"h1", "h2"}[rapid.IntRange(0, 1).Draw(t, "ctl2")], 2, []int{0})
	p.Clients = []*ClientPlan{cp, c1, c2}
	p.Args = []string{"-timeout-tls-handshake", "1s"}
	if bigControl {
		for _, mm := range []*ClientMeta{m1, m2} {
			p.Backend.Resp[mm.Reqs[0].Tag] = &RespPlan{Status: 200, Header: [][2]string{{"X-Backend-Tag", mm.Reqs[0].Tag}}, Body: bodyBytes(mm.Reqs[0].Tag, []int{5000, 30000, 60000}[rapid.IntRange(0, 2).Draw(t, "ctlsz")])}
		}
	}
	if !bigControl && drawBool(t, "slow", 35) {
		// the faulty client's requests outlive the configured read / write timeouts
		if drawBool(t, "readto", 70) {
			p.Args = append(p.Args, "-timeout-http-read", []string{"1s", "2s"}[rapid.IntRange(0, 1).Draw(t, "readtov")])
		}
		if drawBool(t, "writeto", 40) {
			p.Args = append(p.Args, "-timeout-http-write", []string{"1s", "2s"}[rapid.IntRange(0, 1).Draw(t, "writetov")])
		}
		p.Backend.Resp = map[string]*RespPlan{}
		for _, tag := range slowTags {
			p.Backend.Resp[tag] = &RespPlan{Status: 200, Body: []byte("slow:" + tag), DelayMS: []int{1500, 3500}[rapid.IntRange(0, 1).Draw(t, "delay")]}
		}
		what += " (slow back-end, args " + strings.Join(p.Args[2:], " ") + ")"
	}
	p.Fences = drawBool(t, "fences", 30)
	p.Tape, p.Tail = drawTape(t, 64)
	c := &Case{Plan: p, Metas: []*ClientMeta{m, m1, m2}}
	c.Summary = fmt.Sprintf("%s: steps=%d abort=%s@%d faults=%+v", what, len(cp.Steps), cp.AbortKind, cp.AbortAt, p.Faults.Front)
	c.Oracle = func(w *World, c *Case) {
		checkControl(w, c, 1, what)
		checkControl(w, c, 2, what)
	}
	c.Nontrivial = func(w *World, c *Case) bool { return true }
	return c
}

// serverClosedAfter: did the proxy close its side of cl's connection, and how
// long (simulated) after the connection was made.
func serverClosedAfter(w *World, cl *Client) (bool, time.Duration) {
	if cl.conn == nil {
		return false, 0
	}
	w.Net.mu.Lock()
	defer w.Net.mu.Unlock()
	b := cl.conn.pair.B
	if !b.closed {
		return false, 0
	}
	return true, b.ClosedAt.Sub(w.Start) - cl.ConnectedAt
}

package harness

// Engine B (simstream), C19: pkg/http2.Framer writing into / reading from a
// simulated pipe that cuts, short-reads and fails at seeded offsets.

import (
	"bytes"
	"encoding/binary"
	"errors"
	"fmt"
	"io"
	"strings"

	"github.com/wi1dcard/fingerproxy/pkg/http2"
	"golang.org/x/net/http2/hpack"
	"pgregory.net/rapid"
)

// faultyReader hands out data in drawn piece sizes and fails at a byte offset.
type faultyReader struct {
	data   []byte
	pos    int
	cuts   []int
	ci     int
	failAt int // -1: never; otherwise an I/O error once pos reaches it
}

var errInjected = errors.New("simstream: injected read failure")

func (r *faultyReader) Read(b []byte) (int, error) {
	if r.failAt >= 0 && r.pos >= r.failAt {
		return 0, errInjected
	}
	if r.pos >= len(r.data) {
		return 0, io.EOF
	}
	n := len(r.data) - r.pos
	if r.failAt >= 0 && r.pos+n > r.failAt {
		n = r.failAt - r.pos
	}
	if r.ci < len(r.cuts) && r.cuts[r.ci] < n {
		n = r.cuts[r.ci]
	}
	r.ci++
	if n > len(b) {
		n = len(b)
	}
	if n <= 0 {
		n = 1
	}
	copy(b, r.data[r.pos:r.pos+n])
	r.pos += n
	return n, nil
}

type wframe struct {
	Desc string
	Ref  []Frame // what the independent codec expects on the wire
	// for meta-header checks
	Fields [][2]string
	Write  func(fr *http2.Framer) error
}

var boundaryStreams = []uint32{1, 2, 3, 0x7fffffff, 0x7ffffffe, 255, 256, 65535, 65536, 1 << 30}

func drawStream(t *rapid.T) uint32 {
	if drawBool(t, "bstream", 50) {
		return boundaryStreams[rapid.IntRange(0, len(boundaryStreams)-1).Draw(t, "bs")]
	}
	return uint32(rapid.IntRange(1, 0x7fffffff).Draw(t, "stream"))
}

func drawBytes(t *rapid.T, label string, max int) []byte {
	n := rapid.IntRange(0, max).Draw(t, label+"_n")
	if drawBool(t, label+"_edge", 20) {
		n = []int{0, 1, max}[rapid.IntRange(0, 2).Draw(t, label+"_e")]
	}
	b := make([]byte, n)
	seed := byte(rapid.IntRange(0, 255).Draw(t, label+"_s"))
	for i := range b {
		b[i] = seed + byte(i*7)
	}
	return b
}

func drawWFrame(t *rapid.T, enc *HEnc, openHeaders *uint32) wframe {
	kind := rapid.IntRange(0, 10).Draw(t, "fkind")
	switch kind {
	case 0:
		id := drawStream(t)
		data := drawBytes(t, "data", 16384)
		end := drawBool(t, "end", 50)
		if drawBool(t, "padded", 40) {
			pad := make([]byte, rapid.IntRange(1, 255).Draw(t, "pad"))
			if len(data)+len(pad)+1 > 16384 {
				data = data[:16384-len(pad)-1]
			}
			return wframe{Desc: fmt.Sprintf("DATA s=%d len=%d pad=%d end=%v", id, len(data), len(pad), end),
				Ref:   []Frame{DataFrame(id, data, end, len(pad))},
				Write: func(fr *http2.Framer) error { return fr.WriteDataPadded(id, end, data, pad) }}
		}
		return wframe{Desc: fmt.Sprintf("DATA s=%d len=%d end=%v", id, len(data), end),
			Ref:   []Frame{DataFrame(id, data, end, -1)},
			Write: func(fr *http2.Framer) error { return fr.WriteData(id, end, data) }}
	case 1:
		id := drawStream(t)
		p := PrioParam{Dep: drawStream(t) % 0x7fffffff, Exclusive: drawBool(t, "ex", 50), Weight: uint8(rapid.IntRange(0, 255).Draw(t, "w"))}
		if p.Dep == id {
			p.Dep = 0
		}
		return wframe{Desc: fmt.Sprintf("PRIORITY s=%d %+v", id, p), Ref: []Frame{PriorityFrame(id, p)},
			Write: func(fr *http2.Framer) error {
				return fr.WritePriority(id, http2.PriorityParam{StreamDep: p.Dep, Exclusive: p.Exclusive, Weight: p.Weight})
			}}
	case 2:
		id := drawStream(t)
		code := uint32(rapid.IntRange(0, 0x20).Draw(t, "code"))
		if drawBool(t, "bigcode", 20) {
			code = 0xffffffff
		}
		return wframe{Desc: fmt.Sprintf("RST_STREAM s=%d code=%d", id, code), Ref: []Frame{RSTFrame(id, code)},
			Write: func(fr *http2.Framer) error { return fr.WriteRSTStream(id, http2.ErrCode(code)) }}
	case 3:
		n := rapid.IntRange(0, 6).Draw(t, "nset")
		var ss []Setting
		var hs []http2.Setting
		for i := 0; i < n; i++ {
			id := uint16(rapid.IntRange(0, 0xffff).Draw(t, "sid"))
			v := uint32(rapid.Uint32().Draw(t, "sval"))
			switch id {
			case 2:
				v %= 2
			case 4:
				v %= 1 << 31
			case 5:
				v = 16384 + v%(1<<24-16384)
			case 8:
				v %= 2
			}
			ss = append(ss, Setting{id, v})
			hs = append(hs, http2.Setting{ID: http2.SettingID(id), Val: v})
		}
		return wframe{Desc: fmt.Sprintf("SETTINGS %v", ss), Ref: []Frame{SettingsFrame(ss...)},
			Write: func(fr *http2.Framer) error { return fr.WriteSettings(hs...) }}
	case 4:
		return wframe{Desc: "SETTINGS ack", Ref: []Frame{SettingsAck()}, Write: func(fr *http2.Framer) error { return fr.WriteSettingsAck() }}
	case 5:
		var d [8]byte
		copy(d[:], drawBytes(t, "ping", 8))
		ack := drawBool(t, "ack", 50)
		return wframe{Desc: fmt.Sprintf("PING ack=%v", ack), Ref: []Frame{PingFrame(ack, d)}, Write: func(fr *http2.Framer) error { return fr.WritePing(ack, d) }}
	case 6:
		last := drawStream(t)
		code := uint32(rapid.IntRange(0, 0x10).Draw(t, "code"))
		dbg := drawBytes(t, "dbg", 200)
		return wframe{Desc: fmt.Sprintf("GOAWAY last=%d code=%d dbg=%d", last, code, len(dbg)), Ref: []Frame{GoAwayFrame(last, code, dbg)},
			Write: func(fr *http2.Framer) error { return fr.WriteGoAway(last, http2.ErrCode(code), dbg) }}
	case 7:
		id := uint32(0)
		if drawBool(t, "onstream", 60) {
			id = drawStream(t)
		}
		inc := uint32(rapid.IntRange(1, 0x7fffffff).Draw(t, "inc"))
		if drawBool(t, "incedge", 30) {
			inc = []uint32{1, 0x7fffffff, 65535}[rapid.IntRange(0, 2).Draw(t, "ie")]
		}
		return wframe{Desc: fmt.Sprintf("WINDOW_UPDATE s=%d inc=%d", id, inc), Ref: []Frame{WindowUpdateFrame(id, inc)},
			Write: func(fr *http2.Framer) error { return fr.WriteWindowUpdate(id, inc) }}
	case 8, 9:
		// HEADERS (+ CONTINUATION) carrying a real header block
		id := drawStream(t)
		nf := rapid.IntRange(1, 8).Draw(t, "nfields")
		fields := [][2]string{{":method", "GET"}, {":path", "/x"}}
		for i := 0; i < nf; i++ {
			fields = append(fields, [2]string{fmt.Sprintf("x-h%d", rapid.IntRange(0, 5).Draw(t, "hn")), printable(drawBytes(t, "hv", 60))})
		}
		block := enc.Block(fields)
		end := drawBool(t, "end", 50)
		var prio *PrioParam
		if drawBool(t, "hprio", 40) {
			p := PrioParam{Dep: drawStream(t) % 0x7fffffff, Exclusive: drawBool(t, "ex", 50), Weight: uint8(rapid.IntRange(0, 255).Draw(t, "w"))}
			if p.Dep == id {
				p.Dep = 0
			}
			if p.Dep == 0 && !p.Exclusive && p.Weight == 0 {
				p.Weight = 1 // the all-zero PriorityParam means "no priority" to WriteHeaders
			}
			prio = &p
		}
		pad := -1
		if drawBool(t, "hpad", 30) {
			pad = rapid.IntRange(1, 255).Draw(t, "padlen")
		}
		var cuts []int
		nc := rapid.IntRange(0, 3).Draw(t, "ncont")
		for i := 0; i < nc; i++ {
			cuts = append(cuts, rapid.IntRange(1, max(1, len(block))).Draw(t, "hcut"))
		}
		sortInts(cuts)
		ref := HeadersFrames(id, block, end, prio, pad, cuts)
		return wframe{Desc: fmt.Sprintf("HEADERS s=%d block=%d frames=%d prio=%v pad=%d end=%v", id, len(block), len(ref), prio != nil, pad, end), Ref: ref, Fields: fields,
			Write: func(fr *http2.Framer) error {
				// write through the Write* methods, fragment by fragment
				for i, f := range ref {
					frag := f.Payload
					if i == 0 {
						off := 0
						if pad >= 0 {
							off++
						}
						if prio != nil {
							off += 5
						}
						frag = f.Payload[off:]
						if pad >= 0 {
							frag = frag[:len(frag)-pad]
						}
						p := http2.HeadersFrameParam{StreamID: id, BlockFragment: frag, EndStream: end, EndHeaders: f.Flags&FlagEndHeaders != 0}
						if pad >= 0 {
							p.PadLength = uint8(pad)
						}
						if prio != nil {
							p.Priority = http2.PriorityParam{StreamDep: prio.Dep, Exclusive: prio.Exclusive, Weight: prio.Weight}
						}
						if err := fr.WriteHeaders(p); err != nil {
							return err
						}
					} else if err := fr.WriteContinuation(id, f.Flags&FlagEndHeaders != 0, frag); err != nil {
						return err
					}
				}
				return nil
			}}
	default:
		// unknown frame type through WriteRawFrame
		typ := uint8(rapid.IntRange(10, 255).Draw(t, "rawtype"))
		flags := uint8(rapid.IntRange(0, 255).Draw(t, "rawflags"))
		id := uint32(0)
		if drawBool(t, "rawstream", 50) {
			id = drawStream(t)
		}
		pl := drawBytes(t, "raw", 300)
		return wframe{Desc: fmt.Sprintf("RAW type=%d flags=%#x s=%d len=%d", typ, flags, id, len(pl)), Ref: []Frame{{Type: typ, Flags: flags, Stream: id, Payload: pl}},
			Write: func(fr *http2.Framer) error {
				return fr.WriteRawFrame(http2.FrameType(typ), http2.Flags(flags), id, pl)
			}}
	}
}

// compareFrame checks a frame returned by ReadFrame against the reference frame.
func compareFrame(got http2.Frame, want Frame) string {
	h := got.Header()
	if uint8(h.Type) != want.Type || uint8(h.Flags) != want.Flags || h.StreamID != want.Stream&0x7fffffff || int(h.Length) != len(want.Payload) {
		return fmt.Sprintf("header %v, want %s", h, want.String())
	}
	p := want.Payload
	switch f := got.(type) {
	case *http2.DataFrame:
		data := p
		if want.Flags&FlagPadded != 0 {
			data = p[1 : len(p)-int(p[0])]
		}
		if !bytes.Equal(f.Data(), data) {
			return fmt.Sprintf("DATA payload %d bytes, want %d", len(f.Data()), len(data))
		}
		if f.StreamEnded() != (want.Flags&FlagEndStream != 0) {
			return "DATA END_STREAM differs"
		}
	case *http2.PriorityFrame:
		dep := binary.BigEndian.Uint32(p)
		if f.StreamDep != dep&0x7fffffff || f.Exclusive != (dep>>31 == 1) || f.Weight != p[4] {
			return fmt.Sprintf("PRIORITY %+v, want dep=%d ex=%v w=%d", f.PriorityParam, dep&0x7fffffff, dep>>31 == 1, p[4])
		}
	case *http2.RSTStreamFrame:
		if uint32(f.ErrCode) != binary.BigEndian.Uint32(p) {
			return "RST_STREAM code differs"
		}
	case *http2.SettingsFrame:
		if f.IsAck() != (want.Flags&FlagAck != 0) || f.NumSettings() != len(p)/6 {
			return "SETTINGS ack/count differs"
		}
		for i := 0; i < f.NumSettings(); i++ {
			s := f.Setting(i)
			if uint16(s.ID) != binary.BigEndian.Uint16(p[6*i:]) || s.Val != binary.BigEndian.Uint32(p[6*i+2:]) {
				return fmt.Sprintf("SETTINGS entry %d = %v", i, s)
			}
		}
	case *http2.PingFrame:
		if !bytes.Equal(f.Data[:], p) || f.IsAck() != (want.Flags&FlagAck != 0) {
			return "PING differs"
		}
	case *http2.GoAwayFrame:
		if f.LastStreamID != binary.BigEndian.Uint32(p)&0x7fffffff || uint32(f.ErrCode) != binary.BigEndian.Uint32(p[4:]) || !bytes.Equal(f.DebugData(), p[8:]) {
			return "GOAWAY differs"
		}
	case *http2.WindowUpdateFrame:
		if f.Increment != binary.BigEndian.Uint32(p)&0x7fffffff {
			return "WINDOW_UPDATE increment differs"
		}
	case *http2.HeadersFrame:
		off := 0
		frag := p
		padl := 0
		if want.Flags&FlagPadded != 0 {
			padl = int(p[0])
			off = 1
		}
		if want.Flags&FlagPriority != 0 {
			dep := binary.BigEndian.Uint32(p[off:])
			if !f.HasPriority() || f.Priority.StreamDep != dep&0x7fffffff || f.Priority.Exclusive != (dep>>31 == 1) || f.Priority.Weight != p[off+4] {
				return "HEADERS priority differs"
			}
			off += 5
		} else if f.HasPriority() {
			return "HEADERS reports a priority that was not sent"
		} else if f.Priority != (http2.PriorityParam{}) {
			return fmt.Sprintf("HEADERS without the PRIORITY flag carries priority fields %+v", f.Priority)
		}
		frag = p[off : len(p)-padl]
		if !bytes.Equal(f.HeaderBlockFragment(), frag) {
			return "HEADERS block fragment differs"
		}
		if f.StreamEnded() != (want.Flags&FlagEndStream != 0) || f.HeadersEnded() != (want.Flags&FlagEndHeaders != 0) {
			return "HEADERS flags differ"
		}
	case *http2.ContinuationFrame:
		if !bytes.Equal(f.HeaderBlockFragment(), p) || f.HeadersEnded() != (want.Flags&FlagEndHeaders != 0) {
			return "CONTINUATION differs"
		}
	case *http2.UnknownFrame:
		if !bytes.Equal(f.Payload(), p) {
			return "unknown frame payload differs"
		}
	default:
		return fmt.Sprintf("unexpected frame type %T", got)
	}
	return ""
}

type c19Case struct {
	Frames []wframe
	Cuts   []int
	FailAt int
	Meta   bool // read with ReadMetaHeaders
	Reuse  bool // the reading Framer recycles frame objects (SetReuseFrames): each frame is compared before the next read
	Limit  uint32
}

func runC19RoundTrip(cs *c19Case) (vs []Violation, stats map[string]int) {
	stats = map[string]int{}
	bad := func(class, format string, args ...any) {
		vs = append(vs, Violation{class, class, fmt.Sprintf(format, args...)})
	}
	var wire bytes.Buffer
	wfr := http2.NewFramer(&wire, nil)
	for _, f := range cs.Frames {
		if err := f.Write(wfr); err != nil {
			bad("write_refused", "legal frame refused by the writer: %s: %v", f.Desc, err)
			return
		}
	}
	// the independent codec must agree with what was written
	var refBytes []byte
	var refFrames []Frame
	for _, f := range cs.Frames {
		for _, r := range f.Ref {
			refBytes = append(refBytes, r.Bytes()...)
			refFrames = append(refFrames, r)
		}
	}
	if !bytes.Equal(refBytes, wire.Bytes()) {
		// find the first differing frame
		off := 0
		for i, r := range refFrames {
			b := r.Bytes()
			if off+len(b) > wire.Len() || !bytes.Equal(b, wire.Bytes()[off:off+len(b)]) {
				bad("wire_differs", "frame %d on the wire differs from the independent encoding of %s", i, r.String())
				return
			}
			off += len(b)
		}
		bad("wire_differs", "wire has %d bytes, reference %d", wire.Len(), len(refBytes))
		return
	}
	fail := cs.FailAt
	if fail > wire.Len() {
		fail = -1
	}
	rd := &faultyReader{data: wire.Bytes(), cuts: cs.Cuts, failAt: fail}
	rfr := http2.NewFramer(io.Discard, rd)
	rfr.SetMaxReadFrameSize(cs.Limit)
	if cs.Reuse {
		rfr.SetReuseFrames()
	}
	if cs.Meta {
		rfr.ReadMetaHeaders = hpack.NewDecoder(4096, nil)
		rfr.MaxHeaderListSize = 1 << 20
	}
	ri := 0
	fi := 0
	for ri < len(refFrames) {
		got, err := rfr.ReadFrame()
		if err != nil {
			if errors.Is(err, errInjected) || (fail >= 0 && (errors.Is(err, io.ErrUnexpectedEOF) || errors.Is(err, io.EOF))) {
				stats["read_failed_at_injected_offset"]++
				if fail < 0 {
					bad("spurious_error", "ReadFrame failed without an injected fault: %v", err)
				}
				return
			}
			if errors.Is(err, http2.ErrFrameTooLarge) && uint32(len(refFrames[ri].Payload)) > cs.Limit {
				stats["frame_too_large_rejected"]++
				return
			}
			bad("read_error", "ReadFrame error on a legal stream at frame %d (%s): %v", ri, refFrames[ri].String(), err)
			return
		}
		if uint32(got.Header().Length) > cs.Limit {
			bad("over_limit", "ReadFrame returned a frame of %d bytes, read limit %d", got.Header().Length, cs.Limit)
			return
		}
		want := refFrames[ri]
		if mh, ok := got.(*http2.MetaHeadersFrame); ok {
			// reassembled header block: consumes HEADERS + its CONTINUATIONs
			for fi < len(cs.Frames) && cs.Frames[fi].Fields == nil || (fi < len(cs.Frames) && !sameFirst(cs.Frames[fi].Ref, want)) {
				fi++
			}
			if fi >= len(cs.Frames) {
				bad("meta_unexpected", "MetaHeadersFrame without a matching written header block")
				return
			}
			wf := cs.Frames[fi]
			if len(mh.Fields) != len(wf.Fields) {
				bad("meta_fields", "reassembled header block has %d fields, %d were written (%s)", len(mh.Fields), len(wf.Fields), wf.Desc)
				return
			}
			for i, hf := range mh.Fields {
				if hf.Name != wf.Fields[i][0] || hf.Value != wf.Fields[i][1] {
					bad("meta_fields", "field %d = %q:%q, want %q:%q", i, hf.Name, hf.Value, wf.Fields[i][0], wf.Fields[i][1])
					return
				}
			}
			if mh.StreamID != want.Stream&0x7fffffff || mh.HasPriority() != (want.Flags&FlagPriority != 0) || mh.StreamEnded() != (want.Flags&FlagEndStream != 0) {
				bad("meta_header", "MetaHeadersFrame header differs from the HEADERS frame written (%s)", wf.Desc)
				return
			}
			stats["header_block_reassembled"]++
			if len(wf.Ref) > 1 {
				stats["reassembled_across_continuation"]++
			}
			ri += len(wf.Ref)
			fi++
			continue
		}
		if why := compareFrame(got, want); why != "" {
			bad("roundtrip", "frame %d read back differently: %s (written: %s)", ri, why, want.String())
			return
		}
		ri++
	}
	stats["frames_round_tripped"] += ri
	return
}

func sameFirst(ref []Frame, want Frame) bool {
	return len(ref) > 0 && ref[0].Stream == want.Stream && ref[0].Type == want.Type && bytes.Equal(ref[0].Payload, want.Payload)
}

// ---- arbitrary bytes vs the defect -> error-code table (sampled)

// refDefectCodes returns the set of error codes RFC 7540 assigns to the defects
// of this frame (nil: the frame is well-formed at the framing layer).
func refDefectCodes(f Frame) map[uint32]bool {
	codes := map[uint32]bool{}
	id := f.Stream & 0x7fffffff
	l := len(f.Payload)
	p := f.Payload
	switch f.Type {
	case FData:
		if id == 0 {
			codes[ErrProtocol] = true
		}
		if f.Flags&FlagPadded != 0 && (l < 1 || int(p[0]) > l-1) {
			codes[ErrProtocol] = true
			if l < 1 {
				codes[ErrFrameSize] = true
			}
		}
	case FHeaders:
		if id == 0 {
			codes[ErrProtocol] = true
		}
		need := 0
		if f.Flags&FlagPadded != 0 {
			need++
		}
		if f.Flags&FlagPriority != 0 {
			need += 5
		}
		if l < need {
			codes[ErrProtocol] = true
			codes[ErrFrameSize] = true
		} else if f.Flags&FlagPadded != 0 && int(p[0]) > l-need {
			codes[ErrProtocol] = true
		}
	case FPriority:
		if id == 0 {
			codes[ErrProtocol] = true
		}
		if l != 5 {
			codes[ErrFrameSize] = true
		}
	case FRSTStream:
		if id == 0 {
			codes[ErrProtocol] = true
		}
		if l != 4 {
			codes[ErrFrameSize] = true
		}
	case FSettings:
		if id != 0 {
			codes[ErrProtocol] = true
		}
		if f.Flags&FlagAck != 0 && l > 0 {
			codes[ErrFrameSize] = true
		}
		if l%6 != 0 {
			codes[ErrFrameSize] = true
		}
		// the ENABLE_PUSH and MAX_FRAME_SIZE ranges are semantic: validated one layer up and
		// judged by C13. INITIAL_WINDOW_SIZE above 2^31-1 is a FLOW_CONTROL_ERROR (RFC 7540
		// 6.5.2) wherever in the frame the entry stands, also when the identifier is repeated
		if id == 0 && f.Flags&FlagAck == 0 && l%6 == 0 {
			for i := 0; i+6 <= l; i += 6 {
				if p[i] == 0 && p[i+1] == 4 && p[i+2]&0x80 != 0 {
					codes[ErrFlowControl] = true
				}
			}
		}
	case FPushPromise:
		if id == 0 {
			codes[ErrProtocol] = true
		}
		need := 4
		if f.Flags&FlagPadded != 0 {
			need++
		}
		if l < need {
			codes[ErrProtocol] = true
			codes[ErrFrameSize] = true
		} else if f.Flags&FlagPadded != 0 && int(p[0]) > l-need {
			codes[ErrProtocol] = true
		}
	case FPing:
		if id != 0 {
			codes[ErrProtocol] = true
		}
		if l != 8 {
			codes[ErrFrameSize] = true
		}
	case FGoAway:
		if id != 0 {
			codes[ErrProtocol] = true
		}
		if l < 8 {
			codes[ErrFrameSize] = true
		}
	case FWindowUpdate:
		if l != 4 {
			codes[ErrFrameSize] = true
		} else if binary.BigEndian.Uint32(p)&0x7fffffff == 0 {
			codes[ErrProtocol] = true
		}
	case FContinuation:
		if id == 0 {
			codes[ErrProtocol] = true
		}
	}
	if len(codes) == 0 {
		return nil
	}
	return codes
}

func errCodeOf(err error) (uint32, bool) {
	var ce http2.ConnectionError
	if errors.As(err, &ce) {
		return uint32(ce), true
	}
	var se http2.StreamError
	if errors.As(err, &se) {
		return uint32(se.Code), true
	}
	return 0, false
}

func runC19Arbitrary(frames []Frame, raw []byte, limit uint32, cuts []int) (vs []Violation, stats map[string]int) {
	stats = map[string]int{}
	bad := func(class, format string, args ...any) {
		vs = append(vs, Violation{class, class, fmt.Sprintf(format, args...)})
	}
	wire := append(FramesBytes(frames...), raw...)
	rd := &faultyReader{data: wire, cuts: cuts, failAt: -1}
	fr := http2.NewFramer(io.Discard, rd)
	fr.SetMaxReadFrameSize(limit)
	defer func() {
		if e := recover(); e != nil {
			bad("panic", "ReadFrame panicked on arbitrary bytes: %v", e)
		}
	}()
	expectCont := uint32(0) // stream whose header block is open
	for i := 0; i <= len(frames); i++ {
		got, err := fr.ReadFrame()
		if i == len(frames) {
			// the raw tail: anything goes except a panic or an over-limit frame
			if err == nil && got.Header().Length > limit {
				bad("over_limit", "frame of %d bytes returned with read limit %d", got.Header().Length, limit)
			}
			return
		}
		want := frames[i]
		if uint32(len(want.Payload)) > limit {
			if !errors.Is(err, http2.ErrFrameTooLarge) {
				bad("over_limit", "frame of %d bytes with read limit %d: got %v / %v, want ErrFrameTooLarge", len(want.Payload), limit, got, err)
			}
			stats["frame_too_large_rejected"]++
			return
		}
		codes := refDefectCodes(want)
		// HEADERS / CONTINUATION interleaving (RFC 7540 6.2, 6.10)
		id := want.Stream & 0x7fffffff
		if expectCont != 0 && (want.Type != FContinuation || id != expectCont) {
			codes = addCode(codes, ErrProtocol)
		} else if expectCont == 0 && want.Type == FContinuation {
			codes = addCode(codes, ErrProtocol)
		}
		if codes == nil {
			if err != nil {
				bad("wellformed_rejected", "well-formed frame %s rejected: %v", want.String(), err)
				return
			}
			stats["wellformed_accepted"]++
			if want.Type == FPushPromise && want.Flags&FlagEndHeaders == 0 {
				// the framer does not track header blocks opened by PUSH_PROMISE (a server
				// refuses every PUSH_PROMISE one layer up); what follows is not judged
				return
			}
			if (want.Type == FHeaders || want.Type == FContinuation) && want.Flags&FlagEndHeaders == 0 {
				expectCont = id
			} else if want.Type == FHeaders || want.Type == FContinuation || want.Type == FPushPromise {
				expectCont = 0
			}
			continue
		}
		if err == nil {
			bad("malformed_accepted", "malformed frame %s accepted (RFC 7540 assigns %v)", want.String(), codeNames(codes))
			return
		}
		code, ok := errCodeOf(err)
		if !ok {
			bad("malformed_wrong_error", "malformed frame %s rejected with %T %v, not a stream / connection error", want.String(), err, err)
			return
		}
		if !codes[code] {
			bad("malformed_wrong_code", "malformed frame %s rejected with code %d, RFC 7540 assigns %v", want.String(), code, codeNames(codes))
			return
		}
		stats["malformed_rejected_with_rfc_code"]++
		var se http2.StreamError
		if errors.As(err, &se) {
			// a stream error does not end the connection: the frames that follow are read and
			// judged too (an open header block stays open)
			stats["read_on_after_stream_error"]++
			continue
		}
		return // a connection error ends the connection
	}
	return
}

func addCode(m map[uint32]bool, c uint32) map[uint32]bool {
	if m == nil {
		m = map[uint32]bool{}
	}
	m[c] = true
	return m
}

func codeNames(m map[uint32]bool) []uint32 {
	var out []uint32
	for c := uint32(0); c < 16; c++ {
		if m[c] {
			out = append(out, c)
		}
	}
	return out
}

// ---- header blocks as a sequence on one Framer (interleaving and decoder state)

type c19Block struct {
	Stream uint32
	Fields [][2]string
	Cuts   []int  // block split over HEADERS + CONTINUATION frames
	Bad    string // "", or why the block is malformed at the field level (stream error PROTOCOL_ERROR)
	Middle *Frame // a frame put between the first and the second frame of the block (nil: none)
	MidOK  bool   // the middle frame is a legal CONTINUATION of this block
	Trunc  int    // octets cut off the end of the encoded block (inside its last field): a decoding error
	Big    int    // > 0: a last field with a value of that many octets, carried by one CONTINUATION frame
}

// runC19Blocks: header blocks written with the independent codec are read by one Framer,
// with or without ReadMetaHeaders.  A frame that is not this block's CONTINUATION inside an
// open header block is a connection error PROTOCOL_ERROR whatever its type (RFC 7540 6.2,
// 6.10; extension frames included, 5.5); a block with a malformed field is a stream error
// and leaves the decoder usable: the blocks that follow are decoded in full.
func runC19Blocks(blocks []c19Block, meta bool, cuts []int, limit int) (vs []Violation, stats map[string]int) {
	stats = map[string]int{}
	bad := func(class, format string, args ...any) {
		vs = append(vs, Violation{class, class, fmt.Sprintf(format, args...)})
	}
	enc := NewHEnc()
	enc.enc.SetMaxDynamicTableSize(0)
	var wire []byte
	type exp struct {
		frames int // wire frames of the block
		b      c19Block
		over   bool // one of its frames is larger than the read limit
	}
	var exps []exp
	for _, b := range blocks {
		blk := enc.Block(b.Fields)
		if b.Trunc > 0 && b.Trunc < len(blk) {
			blk = blk[:len(blk)-b.Trunc]
		}
		fs := HeadersFrames(b.Stream, blk, true, nil, -1, b.Cuts)
		if b.Middle != nil {
			if len(fs) < 2 {
				// make room: one octet moves into a CONTINUATION frame
				fs = HeadersFrames(b.Stream, enc.Block(b.Fields), true, nil, -1, []int{1})
			}
			rest := append([]Frame{*b.Middle}, fs[1:]...)
			fs = append(fs[:1:1], rest...)
		}
		wire = append(wire, FramesBytes(fs...)...)
		over := false
		for _, f := range fs {
			if limit > 0 && len(f.Payload) > limit {
				over = true
			}
		}
		exps = append(exps, exp{len(fs), b, over})
	}
	rd := &faultyReader{data: wire, cuts: cuts, failAt: -1}
	fr := http2.NewFramer(io.Discard, rd)
	if meta {
		fr.ReadMetaHeaders = hpack.NewDecoder(4096, nil)
	}
	if limit > 0 {
		fr.SetMaxReadFrameSize(uint32(limit))
	}
	defer func() {
		if e := recover(); e != nil {
			bad("panic", "ReadFrame panicked while reading header blocks (meta=%v): %v", meta, e)
		}
	}()
	for bi, e := range exps {
		illegalMiddle := e.b.Middle != nil && !e.b.MidOK
		if e.over {
			// the block's CONTINUATION frame is larger than the read limit: whoever reads it - ReadFrame
			// itself, or ReadFrame on behalf of the header block it is assembling - refuses it
			var err error
			var got http2.Frame
			for k := 0; k < e.frames && err == nil; k++ {
				got, err = fr.ReadFrame()
				if meta {
					break
				}
			}
			if err != http2.ErrFrameTooLarge {
				bad("read_limit_exceeded", "block %d: a CONTINUATION frame carrying a field of %d octets was read under a read limit of %d (meta=%v): got %T %v, want ErrFrameTooLarge", bi, e.b.Big, limit, meta, got, err)
			} else {
				stats["oversized_continuation_refused"]++
			}
			return
		}
		if e.b.Trunc > 0 && meta {
			// RFC 7540 4.3: a header block that cannot be decoded is a connection error
			// COMPRESSION_ERROR - whatever else is wrong with the fields decoded before the cut
			got, err := fr.ReadFrame()
			var ce http2.ConnectionError
			// (a block that is malformed as well may draw the connection error for that first - the
			// reader gives up on a block with an invalid field once it runs into a further
			// CONTINUATION frame, RFC 7540 5.4.1 lets it escalate - but it is a connection error:
			// the decoder state is lost either way)
			if !errors.As(err, &ce) || !(uint32(ce) == ErrCompression || (e.b.Bad != "" && uint32(ce) == ErrProtocol)) {
				bad("truncated_block_accepted", "block %d (cut %d octets short inside its last field; %s) was not rejected with a connection error COMPRESSION_ERROR (got %T %v)", bi, e.b.Trunc, e.b.Bad, got, err)
			} else {
				stats["truncated_block_rejected"]++
			}
			return
		}
		if !meta {
			for k := 0; k < e.frames; k++ {
				_, err := fr.ReadFrame()
				if illegalMiddle && k == 1 {
					if code, ok := errCodeOf(err); !ok || code != ErrProtocol {
						bad("interleaving_accepted", "block %d: frame %s inside an open header block was not rejected with a connection error PROTOCOL_ERROR (got %v)", bi, e.b.Middle.String(), err)
					} else {
						stats["interleaving_rejected"]++
					}
					return
				}
				if err != nil {
					bad("wellformed_rejected", "block %d frame %d rejected: %v", bi, k, err)
					return
				}
			}
			continue
		}
		got, err := fr.ReadFrame()
		if illegalMiddle {
			var ce http2.ConnectionError
			if !errors.As(err, &ce) || uint32(ce) != ErrProtocol {
				bad("interleaving_accepted", "block %d: frame %s inside an open header block was not rejected with a connection error PROTOCOL_ERROR (got %v / %v)", bi, e.b.Middle.String(), got, err)
			} else {
				stats["interleaving_rejected"]++
			}
			return
		}
		mh, _ := got.(*http2.MetaHeadersFrame)
		if e.b.Bad != "" {
			var se http2.StreamError
			if !errors.As(err, &se) || uint32(se.Code) != ErrProtocol {
				bad("malformed_block_accepted", "block %d (%s) was not rejected with a stream error PROTOCOL_ERROR (got %v)", bi, e.b.Bad, err)
				return
			}
			stats["malformed_block_rejected"]++
			continue
		}
		if err != nil || mh == nil {
			bad("wellformed_rejected", "block %d (after %d earlier blocks) rejected: %T %v", bi, bi, got, err)
			return
		}
		if len(mh.Fields) != len(e.b.Fields) {
			bad("fields_lost", "block %d: %d of %d fields decoded (blocks before it: %v)", bi, len(mh.Fields), len(e.b.Fields), badKinds(blocks[:bi]))
			return
		}
		for i, f := range mh.Fields {
			if f.Name != e.b.Fields[i][0] || f.Value != e.b.Fields[i][1] {
				bad("fields_differ", "block %d field %d: got %q: %q, want %q: %q", bi, i, f.Name, f.Value, e.b.Fields[i][0], e.b.Fields[i][1])
				return
			}
		}
		stats["block_decoded"]++
		if bi > 0 {
			stats["block_decoded_after_another"]++
		}
	}
	return
}

func badKinds(bs []c19Block) []string {
	var out []string
	for _, b := range bs {
		if b.Bad != "" {
			out = append(out, b.Bad)
		} else {
			out = append(out, "ok")
		}
	}
	return out
}

func drawC19Blocks(t *rapid.T, cuts []int) *Case {
	n := rapid.IntRange(1, 4).Draw(t, "nblocks")
	limit := []int{0, 0, 16384, 20000, 65536}[rapid.IntRange(0, 4).Draw(t, "blockslimit")]
	var blocks []c19Block
	var descs []string
	for i := 0; i < n; i++ {
		b := c19Block{Stream: uint32(2*i + 1)}
		b.Fields = [][2]string{{":method", "GET"}, {":scheme", "https"}, {":path", fmt.Sprintf("/b%d", i)}, {":authority", "blocks.verif.test"}, {"x-a", fmt.Sprintf("v%d", i)}}
		for k := rapid.IntRange(0, 4).Draw(t, "nextra"); k > 0; k-- {
			b.Fields = append(b.Fields, [2]string{fmt.Sprintf("x-extra-%d", k), drawToken(t, "ev", rapid.IntRange(0, 30).Draw(t, "evl"))})
		}
		if drawBool(t, "badblock", 35) && i < n-1 {
			switch rapid.IntRange(0, 3).Draw(t, "badkind") {
			case 0:
				b.Fields = append(b.Fields, [2]string{"X-Upper", "1"})
				b.Bad = "upper-case field name"
			case 1:
				b.Fields = append(b.Fields, [2]string{":path", "/late"})
				b.Bad = "pseudo-header after a regular field"
			case 2:
				b.Fields = append(b.Fields, [2]string{"x-ctl", "a\x00b"})
				b.Bad = "NUL in a field value"
			case 3:
				b.Fields = append([][2]string{{":bogus", "1"}}, b.Fields...)
				b.Bad = "unknown pseudo-header"
			}
		}
		if drawBool(t, "truncblock", 12) {
			// the block ends inside its last field (after the malformed one, if any)
			b.Fields = append(b.Fields, [2]string{"x-tail", "0123456789abcdef"})
			b.Trunc = rapid.IntRange(1, 6).Draw(t, "truncby")
		}
		if limit > 0 && b.Trunc == 0 && drawBool(t, "bigcont", 15) {
			b.Big = limit + rapid.IntRange(1, limit).Draw(t, "bigby")
			b.Fields = append(b.Fields, [2]string{"x-big", strings.Repeat("Zz9~", b.Big/4+1)[:b.Big]})
			b.Cuts = []int{rapid.IntRange(1, 40).Draw(t, "bigcut")}
		} else if drawBool(t, "split", 60) {
			for k := rapid.IntRange(1, 3).Draw(t, "nsplit"); k > 0; k-- {
				b.Cuts = append(b.Cuts, rapid.IntRange(1, 40).Draw(t, "splitat"))
			}
			sortInts(b.Cuts)
		}
		if i == n-1 && b.Trunc == 0 && b.Big == 0 && drawBool(t, "middle", 60) {
			var m Frame
			switch rapid.IntRange(0, 6).Draw(t, "midkind") {
			case 0, 1:
				// an extension frame (type >= 0x0a), on this or another stream
				m = Frame{Type: uint8(rapid.IntRange(0x0a, 0xff).Draw(t, "exttype")), Flags: uint8(rapid.IntRange(0, 255).Draw(t, "extflags")), Stream: []uint32{0, b.Stream, b.Stream + 2}[rapid.IntRange(0, 2).Draw(t, "extstream")], Payload: rapid.SliceOfN(rapid.Byte(), 0, 12).Draw(t, "extpl")}
			case 2:
				m = PingFrame(false, [8]byte{1})
			case 3:
				m = DataFrame(b.Stream, []byte("d"), false, -1)
			case 4:
				m = Frame{Type: FContinuation, Stream: b.Stream + 2, Payload: []byte{0x82}}
			case 5:
				m = WindowUpdateFrame(0, 1)
			case 6:
				// legal: an empty CONTINUATION of this very block
				m = Frame{Type: FContinuation, Stream: b.Stream}
				b.MidOK = true
			}
			b.Middle = &m
		}
		blocks = append(blocks, b)
		d := fmt.Sprintf("block(s=%d fields=%d cuts=%v bad=%q trunc=%d big=%d", b.Stream, len(b.Fields), b.Cuts, b.Bad, b.Trunc, b.Big)
		if b.Middle != nil {
			d += " middle=" + b.Middle.String()
		}
		descs = append(descs, d+")")
	}
	meta := drawBool(t, "blocksmeta", 65)
	c := &Case{}
	c.Summary = fmt.Sprintf("header blocks %v meta=%v limit=%d cuts %v", descs, meta, limit, head(cuts, 6))
	c.DirectKey = c.Summary
	c.Direct = func(c *Case) []Violation {
		vs, st := runC19Blocks(blocks, meta, cuts, limit)
		c.DirectStats = st
		return vs
	}
	return c
}

func drawC19(t *rapid.T) *Case {
	var cuts []int
	switch rapid.IntRange(0, 3).Draw(t, "sched") {
	case 0:
		for i := 0; i < 200; i++ {
			cuts = append(cuts, 1)
		}
	case 1:
		cuts = []int{rapid.IntRange(1, 8).Draw(t, "c1"), 9, 1, rapid.IntRange(1, 50).Draw(t, "c2")}
	case 2:
		n := rapid.IntRange(1, 40).Draw(t, "ncuts")
		for i := 0; i < n; i++ {
			cuts = append(cuts, rapid.IntRange(1, 300).Draw(t, "cut"))
		}
	}
	if drawBool(t, "blocks", 15) {
		return drawC19Blocks(t, cuts)
	}
	if drawBool(t, "arbitrary", 40) {
		// frames with arbitrary header fields / payloads, then raw bytes
		n := rapid.IntRange(1, 5).Draw(t, "nframes")
		var frames []Frame
		for i := 0; i < n; i++ {
			f := Frame{Type: uint8(rapid.IntRange(0, 12).Draw(t, "type")), Flags: uint8(rapid.IntRange(0, 255).Draw(t, "flags")), Stream: uint32(rapid.IntRange(0, 5).Draw(t, "sid"))}
			if drawBool(t, "reserved", 20) {
				f.Stream |= 1 << 31
			}
			ln := []int{0, 1, 4, 5, 6, 8, 9, 12}[rapid.IntRange(0, 7).Draw(t, "plen")]
			if drawBool(t, "randlen", 30) {
				ln = rapid.IntRange(0, 64).Draw(t, "plen2")
			}
			f.Payload = rapid.SliceOfN(rapid.Byte(), ln, ln).Draw(t, "payload")
			setFocus := drawBool(t, "setfocus", 10)
			if setFocus {
				f.Type = FSettings
			}
			if setFocus || drawBool(t, "edgepayload", 35) {
				// payloads on parser boundaries: zero / maximal / reserved-bit words, pad-length
				// octets around the frame length
				edge := [][]byte{{0, 0, 0, 0}, {0x80, 0, 0, 0}, {0x7f, 0xff, 0xff, 0xff}, {0xff, 0xff, 0xff, 0xff}, {0, 0, 0, 1}, {0x80, 0, 0, 1}}
				w := edge[rapid.IntRange(0, len(edge)-1).Draw(t, "edgeword")]
				switch f.Type {
				case FWindowUpdate, FRSTStream:
					f.Payload = append([]byte(nil), w...)
				case FPriority:
					f.Payload = append(append([]byte(nil), w...), byte(rapid.IntRange(0, 255).Draw(t, "edgeweight")))
				case FGoAway:
					f.Payload = append(append([]byte(nil), w...), 0, 0, 0, 0)
				case FSettings:
					// 1-3 entries, identifiers repeated, values on the range boundaries
					f.Payload = nil
					for k, ne := 0, rapid.IntRange(1, 3).Draw(t, "nsettings"); k < ne; k++ {
						sid := []byte{4, 4, 4, 4, 1, 2, 3, 5, 6, 9}[rapid.IntRange(0, 9).Draw(t, "setid")]
						f.Payload = append(append(f.Payload, 0, sid), edge[rapid.IntRange(0, len(edge)-1).Draw(t, "setval")]...)
					}
					if drawBool(t, "setplain", 70) {
						f.Flags, f.Stream = 0, 0
					}
				case FHeaders, FData, FPushPromise:
					if len(f.Payload) > 0 {
						l := len(f.Payload)
						f.Payload[0] = byte([]int{0, l - 7, l - 6, l - 5, l - 2, l - 1, l, l + 1, 255}[rapid.IntRange(0, 8).Draw(t, "edgepad")] & 0xff)
					}
				}
			}
			frames = append(frames, f)
		}
		raw := rapid.SliceOfN(rapid.Byte(), 0, 40).Draw(t, "rawtail")
		// (read limits at the ends of the range too: 0 lets only empty frames through)
		limit := uint32([]int{16384, 16, 1 << 20, 0, 5, 1<<24 - 1}[rapid.IntRange(0, 5).Draw(t, "limit")])
		c := &Case{}
		var descs []string
		for _, f := range frames {
			descs = append(descs, f.String())
		}
		c.Summary = fmt.Sprintf("arbitrary frames %v + %d raw bytes, limit %d, cuts %v", descs, len(raw), limit, head(cuts, 6))
		c.DirectKey = c.Summary
		c.Direct = func(c *Case) []Violation {
			vs, st := runC19Arbitrary(frames, raw, limit, cuts)
			c.DirectStats = st
			return vs
		}
		return c
	}
	cs := &c19Case{Cuts: cuts, FailAt: -1, Limit: 1 << 24}
	enc := NewHEnc()
	n := rapid.IntRange(1, 8).Draw(t, "nframes")
	var open uint32
	var descs []string
	for i := 0; i < n; i++ {
		f := drawWFrame(t, enc, &open)
		cs.Frames = append(cs.Frames, f)
		descs = append(descs, f.Desc)
	}
	cs.Meta = drawBool(t, "meta", 50)
	cs.Reuse = drawBool(t, "reuse", 30)
	if drawBool(t, "fail", 40) {
		cs.FailAt = rapid.IntRange(0, 4000).Draw(t, "failat")
	}
	if drawBool(t, "smalllimit", 15) {
		cs.Limit = 16384
	}
	c := &Case{}
	c.Summary = fmt.Sprintf("write %v; read with cuts %v failAt=%d meta=%v reuse=%v limit=%d", descs, head(cuts, 6), cs.FailAt, cs.Meta, cs.Reuse, cs.Limit)
	c.DirectKey = c.Summary
	c.Direct = func(c *Case) []Violation {
		vs, st := runC19RoundTrip(cs)
		c.DirectStats = st
		return vs
	}
	return c
}

func init() {
	register(&CheckDef{ID: "C19", Level: "exploration", Engine: "B", Draw: drawC19,
		Rule: "engine B: (1) 1-8 frames written by every Write* method with boundary and seeded parameters (stream ids incl. 2^31-1, lengths 0..16384, padding 0..255, priority, header blocks cut into CONTINUATION frames) must equal the independent refframe encoding byte for byte, and read back through a simulated pipe that cuts (1 byte at a time, inside the 9-byte header, random) and fails at a seeded offset must be the same frames (every field, payload, padding; header blocks reassembled by ReadMetaHeaders) or an I/O error - never a different frame, never above the read limit; (2) frames with arbitrary type / flags / stream / length / payload followed by raw bytes: no panic, read limit respected, malformed frames and illegal HEADERS/CONTINUATION interleavings rejected with a stream or connection error whose code is in the set RFC 7540 assigns (sampled, not decided by simulation). In-situ coverage comes with C03/C12/C13. Distinct: distinct cases."})
}

func printable(b []byte) string {
	out := make([]byte, len(b))
	for i, c := range b {
		out[i] = 0x21 + c%0x5e
	}
	return string(out)
}

package harness

// C12, client half: the fork's http2.Transport against a scripted raw-frame
// HTTP/2 server peer.  The peer owns every window the transport sends into;
// the transport's DATA frames are checked against the same ledger as the
// server's (mirrored), uploads must complete after the final grants, the
// transport must return credit for response bodies it consumed or discarded.

import (
	"bytes"
	"context"
	"crypto/tls"
	"encoding/binary"
	"fmt"
	"io"
	"net"
	"net/http"
	"strings"

	"github.com/wi1dcard/fingerproxy/pkg/http2"
	"golang.org/x/net/http2/hpack"
	"pgregory.net/rapid"
)

type trReq struct {
	Tag       string
	Upload    int    // request body size
	Resp      int    // response body size
	RespParts []int  // DATA frame sizes of the response
	RespPads  []int  // padding of the i-th response DATA frame (-1: none); a value >= 1000 inserts a padding-only frame of (v-1000) octets before it
	PadStorm  int    // number of padding-only DATA frames (255 octets of padding each) sent ahead of the body
	RespWire  int    // flow-controlled octets of the response as sent (payload incl. padding), filled in when the peer responds
	ReadMode  string // "all", "close_early", "close_now"
	ReadFirst int    // close_early: bytes read before Close
	ServerRST bool   // the peer resets the stream while the upload is in progress
}

type trPlan struct {
	IWS        int64
	MFS        int64
	Reqs       []*trReq
	Events     []flowEvent // peer-side window play; Stream holds the request index + 1 (0 = connection)
	Sequential bool
}

type trPeer struct {
	w          *World
	conn       *Conn
	mu         *World
	Recv       []RecvFrame
	buf        []byte
	hdec       *hpack.Decoder
	hbuf       []byte
	hstream    uint32
	tagStream  map[string]uint32
	streamTag  map[uint32]string
	bodies     map[uint32][]byte
	ended      map[uint32]bool
	notify     chan struct{}
	ReadErr    string
	Ended      bool
	gotPreface bool
	WriteSteps []int
	henc       *HEnc
}

func (p *trPeer) broadcast() {
	close(p.notify)
	p.notify = make(chan struct{})
}

func (p *trPeer) reader() {
	tmp := make([]byte, 64<<10)
	for {
		n, err := p.conn.Read(tmp)
		p.w.mu.Lock()
		p.buf = append(p.buf, tmp[:n]...)
		if !p.gotPreface && len(p.buf) >= len(ClientPreface) {
			p.gotPreface = true
			p.buf = p.buf[len(ClientPreface):]
		}
		for p.gotPreface {
			f, k, ok := ParseFrame(p.buf)
			if !ok {
				break
			}
			p.buf = p.buf[k:]
			p.Recv = append(p.Recv, RecvFrame{f, p.w.Step})
			id := f.Stream & 0x7fffffff
			switch f.Type {
			case FHeaders:
				pl := f.Payload
				if f.Flags&FlagPadded != 0 && len(pl) > 0 {
					pad := int(pl[0])
					pl = pl[1:]
					if pad <= len(pl) {
						pl = pl[:len(pl)-pad]
					}
				}
				if f.Flags&FlagPriority != 0 && len(pl) >= 5 {
					pl = pl[5:]
				}
				p.hbuf = append([]byte(nil), pl...)
				p.hstream = id
				if f.Flags&FlagEndHeaders != 0 {
					p.headersDone(f.Flags&FlagEndStream != 0)
				}
			case FContinuation:
				p.hbuf = append(p.hbuf, f.Payload...)
				if f.Flags&FlagEndHeaders != 0 {
					p.headersDone(false)
				}
			case FData:
				pl := f.Payload
				if f.Flags&FlagPadded != 0 && len(pl) > 0 {
					pad := int(pl[0])
					pl = pl[1:]
					if pad <= len(pl) {
						pl = pl[:len(pl)-pad]
					}
				}
				p.bodies[id] = append(p.bodies[id], pl...)
				if f.Flags&FlagEndStream != 0 {
					p.ended[id] = true
				}
			}
		}
		p.broadcast()
		p.w.mu.Unlock()
		if err != nil {
			p.w.mu.Lock()
			p.Ended = true
			p.ReadErr = err.Error()
			p.broadcast()
			p.w.mu.Unlock()
			return
		}
	}
}

func (p *trPeer) headersDone(endStream bool) {
	fields, _ := p.hdec.DecodeFull(p.hbuf)
	for _, hf := range fields {
		if hf.Name == ":path" {
			tag := strings.TrimPrefix(hf.Value, "/")
			p.tagStream[tag] = p.hstream
			p.streamTag[p.hstream] = tag
		}
	}
	if endStream {
		p.ended[p.hstream] = true
	}
}

func (p *trPeer) write(fs ...Frame) error {
	p.w.mu.Lock()
	p.WriteSteps = append(p.WriteSteps, p.w.Step)
	p.w.mu.Unlock()
	_, err := p.conn.Write(FramesBytes(fs...))
	return err
}

// waitFor blocks until cond holds (checked under w.mu) or the connection ends.
func (p *trPeer) waitFor(cond func() bool, quit chan struct{}) error {
	for {
		p.w.mu.Lock()
		ok := cond()
		ended := p.Ended
		ch := p.notify
		p.w.mu.Unlock()
		if ok {
			return nil
		}
		if ended {
			return fmt.Errorf("connection ended")
		}
		select {
		case <-ch:
		case <-quit:
			return fmt.Errorf("aborted")
		}
	}
}

type trUser struct {
	Req     *trReq
	Resp    *http.Response
	Err     string
	Body    []byte
	BodyErr string
	Closed  bool
}

type trAux struct {
	Plan       *trPlan
	Peer       *trPeer
	Users      []*trUser
	PeerWrites int
}

func drawC12Transport(t *rapid.T) *Case {
	tp := &trPlan{}
	tp.IWS = int64([]int{0, 1, 100, 16384, 65535, 1 << 20}[rapid.IntRange(0, 5).Draw(t, "iws0")])
	tp.MFS = int64([]int{16384, 16384, 20000, 1 << 16}[rapid.IntRange(0, 3).Draw(t, "mfs0")])
	tp.Sequential = drawBool(t, "sequential", 30)
	n := rapid.IntRange(1, 6).Draw(t, "nreq")
	totalUp := 0
	for i := 0; i < n; i++ {
		r := &trReq{Tag: fmt.Sprintf("t%d", i)}
		r.Upload = []int{0, 1, 100, 16384, 16385, 65535, 65536, 100000, 250000}[rapid.IntRange(0, 8).Draw(t, "upsz")]
		if drawBool(t, "uprand", 30) {
			r.Upload = rapid.IntRange(0, 150000).Draw(t, "upszr")
		}
		totalUp += r.Upload
		r.Resp = []int{0, 1, 1000, 16384, 70000, 200000}[rapid.IntRange(0, 5).Draw(t, "respsz")]
		for k := 0; k < 4; k++ {
			r.RespParts = append(r.RespParts, rapid.IntRange(1, 16384).Draw(t, "resppart"))
		}
		if drawBool(t, "resppad", 40) {
			for k := 0; k < 4; k++ {
				pv := rapid.IntRange(-1, 255).Draw(t, "resppadlen")
				if drawBool(t, "padonly", 25) {
					pv = 1000 + rapid.IntRange(0, 255).Draw(t, "padonlylen")
				}
				r.RespPads = append(r.RespPads, pv)
			}
		}
		if drawBool(t, "padstorm", 10) {
			r.PadStorm = rapid.IntRange(80, 300).Draw(t, "padstormlen")
		}
		r.ReadMode = []string{"all", "all", "close_early", "close_now"}[rapid.IntRange(0, 3).Draw(t, "readmode")]
		r.ReadFirst = rapid.IntRange(0, 5000).Draw(t, "readfirst")
		r.ServerRST = r.Upload > 20000 && drawBool(t, "srst", 15)
		tp.Reqs = append(tp.Reqs, r)
	}
	// window play by the peer
	m := rapid.IntRange(0, 10).Draw(t, "nplay")
	conn := int64(65535)
	for i := 0; i < m; i++ {
		switch rapid.IntRange(0, 4).Draw(t, "play") {
		case 0, 1:
			inc := int64([]int{1, 2, 100, 16384, 65535, 1 << 20}[rapid.IntRange(0, 5).Draw(t, "cinc")])
			if conn+inc > 1<<30 {
				continue
			}
			conn += inc
			tp.Events = append(tp.Events, flowEvent{Kind: "wu", Stream: 0, Inc: uint32(inc)})
		case 2:
			idx := rapid.IntRange(0, n-1).Draw(t, "sidx")
			inc := int64([]int{1, 3, 1000, 16384, 70000, 1 << 20}[rapid.IntRange(0, 5).Draw(t, "sinc")])
			tp.Events = append(tp.Events, flowEvent{Kind: "wu", Stream: uint32(idx + 1), Inc: uint32(inc)})
		case 3:
			iws := int64([]int{0, 1, 50, 1000, 16384, 65535, 200000, 1 << 20}[rapid.IntRange(0, 7).Draw(t, "iwsn")])
			tp.Events = append(tp.Events, flowEvent{Kind: "settings", IWS: iws, MFS: -1})
		case 4:
			mfs := int64([]int{16384, 16385, 30000, 1 << 16}[rapid.IntRange(0, 3).Draw(t, "mfsn")])
			tp.Events = append(tp.Events, flowEvent{Kind: "settings", IWS: -1, MFS: mfs})
		}
	}
	aux := &trAux{Plan: tp}
	p := &Plan{Check: "C12", Budget: 60000}
	p.Tape, p.Tail = drawTape(t, 128)
	p.Setup = func(w *World) { setupTransportWorld(w, aux, totalUp) }
	c := &Case{Plan: p, Aux: aux, Oracle: oracleC12Transport}
	var rs, ev []string
	for _, r := range tp.Reqs {
		rs = append(rs, fmt.Sprintf("%s:up%d/resp%d/%s", r.Tag, r.Upload, r.Resp, r.ReadMode))
	}
	for _, e := range tp.Events {
		if e.Kind == "wu" {
			ev = append(ev, fmt.Sprintf("WU(req%d,+%d)", e.Stream, e.Inc))
		} else {
			ev = append(ev, fmt.Sprintf("SETTINGS(iws=%d,mfs=%d)", e.IWS, e.MFS))
		}
	}
	c.Summary = fmt.Sprintf("TRANSPORT world: peer iws=%d mfs=%d sequential=%v requests[%s] peer events: %s", tp.IWS, tp.MFS, tp.Sequential, strings.Join(rs, " "), strings.Join(ev, " "))
	c.Nontrivial = func(w *World, c *Case) bool { return len(aux.Peer.Recv) > 2 }
	return c
}

func setupTransportWorld(w *World, aux *trAux, totalUp int) {
	tp := aux.Plan
	pair := w.Net.NewPair("tr0", tcpAddr("198.51.100.200:40000"), tcpAddr("10.0.0.9:443"))
	peer := &trPeer{w: w, conn: pair.B, hdec: hpack.NewDecoder(4096, nil), tagStream: map[string]uint32{}, streamTag: map[uint32]string{},
		bodies: map[uint32][]byte{}, ended: map[uint32]bool{}, notify: make(chan struct{}), henc: NewHEnc()}
	aux.Peer = peer
	go peer.reader()
	dialed := false
	tr := &http2.Transport{
		AllowHTTP: true,
		DialTLSContext: func(ctx context.Context, network, addr string, cfg *tls.Config) (net.Conn, error) {
			if dialed {
				return nil, fmt.Errorf("verif: second dial refused")
			}
			dialed = true
			return pair.A, nil
		},
	}
	w.OnTeardown = func() { tr.CloseIdleConnections() }

	// the peer's script
	quit := make(chan struct{})
	var steps []ActorStep
	steps = append(steps, ActorStep{Name: "settings", Fn: func() error {
		return peer.write(SettingsFrame(Setting{4, uint32(tp.IWS)}, Setting{5, uint32(tp.MFS)}), SettingsAck())
	}})
	evs := []flowEvent{{Kind: "settings", IWS: tp.IWS, MFS: tp.MFS, Write: 0}}
	nw := 1
	for _, e := range tp.Events {
		e := e
		e.Write = nw
		nw++
		evs = append(evs, e)
		steps = append(steps, ActorStep{Name: e.Kind, Fn: func() error {
			switch e.Kind {
			case "wu":
				if e.Stream == 0 {
					return peer.write(WindowUpdateFrame(0, e.Inc))
				}
				tag := tp.Reqs[e.Stream-1].Tag
				w.mu.Lock()
				id, ok := peer.tagStream[tag]
				done := peer.ended[id]
				w.mu.Unlock()
				if !ok || done {
					// stream not open (yet / any more): a stream-level update would be an error; grant on the connection instead
					return peer.write(WindowUpdateFrame(0, 1))
				}
				return peer.write(WindowUpdateFrame(id, e.Inc))
			default:
				var ss []Setting
				if e.IWS >= 0 {
					ss = append(ss, Setting{4, uint32(e.IWS)})
				}
				if e.MFS >= 0 {
					ss = append(ss, Setting{5, uint32(e.MFS)})
				}
				return peer.write(SettingsFrame(ss...))
			}
		}})
	}
	// final grants: everything may flow
	finalIdx := nw
	nw++
	evs = append(evs, flowEvent{Kind: "wu", Stream: 0, Inc: uint32(totalUp + 1), Write: finalIdx}, flowEvent{Kind: "settings", IWS: 1 << 22, MFS: -1, Write: finalIdx})
	steps = append(steps, ActorStep{Name: "final grants", Fn: func() error {
		return peer.write(WindowUpdateFrame(0, uint32(totalUp+1)), SettingsFrame(Setting{4, 1 << 22}))
	}})
	aux.PeerWrites = nw
	// responses: one step per request, once its upload has ended (or right away for a server reset)
	for i, r := range tp.Reqs {
		i, r := i, r
		_ = i
		steps = append(steps, ActorStep{Name: "respond " + r.Tag, Fn: func() error {
			if r.ServerRST {
				if err := peer.waitFor(func() bool { _, ok := peer.tagStream[r.Tag]; return ok }, quit); err != nil {
					return err
				}
				w.mu.Lock()
				id := peer.tagStream[r.Tag]
				w.mu.Unlock()
				w.Net.fired("peer_rst_mid_upload")
				return peer.write(RSTFrame(id, ErrCancel))
			}
			if err := peer.waitFor(func() bool { id, ok := peer.tagStream[r.Tag]; return ok && peer.ended[id] }, quit); err != nil {
				return err
			}
			w.mu.Lock()
			id := peer.tagStream[r.Tag]
			w.mu.Unlock()
			body := bodyBytes("resp-"+r.Tag, r.Resp)
			fs := HeadersFrames(id, peer.henc.Block([][2]string{{":status", "200"}, {"content-length", fmt.Sprint(len(body))}}), len(body) == 0, nil, -1, nil)
			for j := 0; j < r.PadStorm && len(body) > 0; j++ {
				fs = append(fs, DataFrame(id, nil, false, 255))
			}
			rest := body
			k := 0
			for len(rest) > 0 {
				sz := 16384
				if k < len(r.RespParts) {
					sz = r.RespParts[k]
				}
				k++
				if sz > len(rest) {
					sz = len(rest)
				}
				pad := -1
				if k-1 < len(r.RespPads) {
					pad = r.RespPads[k-1]
				}
				if pad >= 1000 {
					// a DATA frame that carries nothing but padding
					fs = append(fs, DataFrame(id, nil, false, pad-1000))
					pad = -1
				}
				if pad >= 0 && sz+pad+1 > 16384 {
					pad = -1
				}
				fs = append(fs, DataFrame(id, rest[:sz], sz == len(rest), pad))
				rest = rest[sz:]
			}
			wire := 0
			for _, f := range fs {
				if f.Type == FData {
					wire += len(f.Payload)
				}
			}
			w.mu.Lock()
			r.RespWire = wire
			w.mu.Unlock()
			return peer.write(fs...)
		}})
	}
	// barrier: when everything is quiet, ping and wait for the ack so that the credit the
	// transport owes has been written and delivered
	steps = append(steps, ActorStep{Name: "ping", WhenQuiet: true, Fn: func() error { return peer.write(PingFrame(false, [8]byte{0xfc})) }})
	steps = append(steps, ActorStep{Name: "await ping ack", WhenQuiet: true, Fn: func() error {
		return peer.waitFor(func() bool {
			for _, rf := range peer.Recv {
				if rf.F.Type == FPing && rf.F.Flags&FlagAck != 0 && len(rf.F.Payload) == 8 && rf.F.Payload[0] == 0xfc {
					return true
				}
			}
			return false
		}, quit)
	}})
	aux.Plan.Events = evs
	pa := w.AddActor("peer", steps)
	_ = pa

	// users
	var prev *Actor
	for _, r := range tp.Reqs {
		r := r
		u := &trUser{Req: r}
		aux.Users = append(aux.Users, u)
		after := prev
		var gateAfter *Actor
		if tp.Sequential {
			gateAfter = after
		}
		us := []ActorStep{{Name: "roundtrip", After: gateAfter, Fn: func() error {
			var body io.Reader
			if r.Upload > 0 {
				body = bytes.NewReader(bodyBytes(r.Tag, r.Upload))
			}
			req, _ := http.NewRequest("POST", "http://peer.verif.test/"+r.Tag, body)
			if r.Upload > 0 {
				req.ContentLength = int64(r.Upload)
			}
			resp, err := tr.RoundTrip(req)
			if err != nil {
				u.Err = err.Error()
				return nil
			}
			u.Resp = resp
			return nil
		}}, {Name: "read", Fn: func() error {
			if u.Resp == nil {
				return nil
			}
			switch r.ReadMode {
			case "all":
				b, err := io.ReadAll(u.Resp.Body)
				u.Body = b
				if err != nil {
					u.BodyErr = err.Error()
				}
			case "close_early":
				b := make([]byte, r.ReadFirst)
				n, _ := io.ReadFull(u.Resp.Body, b)
				u.Body = b[:n]
			}
			u.Resp.Body.Close()
			u.Closed = true
			return nil
		}}}
		prev = w.AddActor("user-"+r.Tag, us)
	}
	old := w.OnTeardown
	w.OnTeardown = func() {
		select {
		case <-quit:
		default:
			close(quit)
		}
		old()
	}
}

func oracleC12Transport(w *World, c *Case) {
	aux := c.Aux.(*trAux)
	peer := aux.Peer
	tp := aux.Plan
	w.Drain(20000)
	w.mu.Lock()
	recv := append([]RecvFrame(nil), peer.Recv...)
	writeSteps := append([]int(nil), peer.WriteSteps...)
	tagStream := map[string]uint32{}
	for k, v := range peer.tagStream {
		tagStream[k] = v
	}
	bodies := map[uint32][]byte{}
	for k, v := range peer.bodies {
		bodies[k] = v
	}
	ended := map[uint32]bool{}
	for k, v := range peer.ended {
		ended[k] = v
	}
	w.mu.Unlock()
	// the write index of an event is its position in the peer's script; scripted writes that
	// carry no event (responses, ping) come after all of them, so positions line up
	stepOf := func(wi int) int {
		if wi < len(writeSteps) {
			return writeSteps[wi]
		}
		return 1 << 30
	}
	desc := c.Summary
	var settings []flowEvent
	for _, e := range tp.Events {
		if e.Kind == "settings" {
			settings = append(settings, e)
		}
	}
	acks := 0
	sentConn := int64(0)
	sentStream := map[uint32]int64{}
	sentData := int64(0) // what the peer sent to the transport (responses)
	transportConnWU := int64(0)
	firstWU := int64(-1)
	for _, rf := range recv {
		f := rf.F
		id := f.Stream & 0x7fffffff
		switch f.Type {
		case FSettings:
			if f.Flags&FlagAck != 0 {
				acks++
			}
		case FWindowUpdate:
			if id == 0 && len(f.Payload) == 4 {
				inc := int64(binary.BigEndian.Uint32(f.Payload) & 0x7fffffff)
				if firstWU < 0 {
					firstWU = inc
				}
				transportConnWU += inc
			}
		case FData:
			l := int64(len(f.Payload))
			sentConn += l
			sentStream[id] += l
			if l == 0 {
				continue
			}
			iwsMax, mfsMax := int64(65535), int64(16384)
			curI, curM := int64(65535), int64(16384)
			for i, s := range settings {
				if stepOf(s.Write) > rf.Step {
					break
				}
				if s.IWS >= 0 {
					curI = s.IWS
				}
				if s.MFS >= 0 {
					curM = s.MFS
				}
				if i < acks {
					iwsMax, mfsMax = curI, curM
				} else {
					if curI > iwsMax {
						iwsMax = curI
					}
					if curM > mfsMax {
						mfsMax = curM
					}
				}
			}
			grantConn, grantStream := int64(65535), iwsMax
			for _, e := range tp.Events {
				if e.Kind != "wu" || stepOf(e.Write) > rf.Step {
					continue
				}
				if e.Stream == 0 {
					grantConn += int64(e.Inc)
				} else if sid, ok := tagStream[tp.Reqs[e.Stream-1].Tag]; ok && sid == id {
					grantStream += int64(e.Inc)
				}
			}
			// a stream-level event whose stream was not open was replaced by WINDOW_UPDATE(0,1)
			for _, e := range tp.Events {
				if e.Kind == "wu" && e.Stream != 0 && stepOf(e.Write) <= rf.Step {
					grantConn++
				}
			}
			if l > mfsMax {
				w.Violate("transport_frame_size_exceeded", "transport_frame_size_exceeded", "transport sent a DATA frame of %d bytes on stream %d, the peer's SETTINGS_MAX_FRAME_SIZE is at most %d | %s", l, id, mfsMax, desc)
				return
			}
			if sentConn > grantConn {
				w.Violate("transport_connection_window_exceeded", "transport_connection_window_exceeded", "transport is %d bytes beyond the connection window the peer had granted (%d) | %s", sentConn-grantConn, grantConn, desc)
				return
			}
			if sentStream[id] > grantStream {
				w.Violate("transport_stream_window_exceeded", "transport_stream_window_exceeded", "transport sent %d bytes on stream %d, the most the peer can have granted by then is %d | %s", sentStream[id], id, grantStream, desc)
				return
			}
			if sentStream[id] == grantStream || sentConn == grantConn {
				w.Probe("transport_window_used_up_exactly")
			}
		}
	}
	// liveness + integrity of uploads, integrity of responses
	for i, r := range tp.Reqs {
		u := aux.Users[i]
		id, seen := tagStream[r.Tag]
		if r.ServerRST {
			continue
		}
		if !seen || !ended[id] {
			w.Violate("transport_upload_not_delivered", "transport_upload_not_delivered", "request %s: the upload never completed although the peer granted enough window for everything (%d of %d bytes arrived, roundtrip error %q) | %s", r.Tag, len(bodies[id]), r.Upload, u.Err, desc)
			return
		}
		if !bytes.Equal(bodies[id], bodyBytes(r.Tag, r.Upload)) {
			w.Violate("transport_upload_corrupted", "transport_upload_corrupted", "request %s: %d bytes arrived at the peer, %d were sent, or the content differs | %s", r.Tag, len(bodies[id]), r.Upload, desc)
			return
		}
		if u.Resp != nil && r.ReadMode == "all" {
			if u.BodyErr != "" || !bytes.Equal(u.Body, bodyBytes("resp-"+r.Tag, r.Resp)) {
				w.Violate("transport_response_corrupted", "transport_response_corrupted", "request %s: response body %d bytes (err %q), peer sent %d | %s", r.Tag, len(u.Body), u.BodyErr, r.Resp, desc)
				return
			}
		}
		if u.Resp != nil {
			sentData += int64(r.RespWire)
		}
	}
	// credit for response bodies consumed or discarded by the application
	if sentData > 0 && firstWU >= 0 {
		unreturned := sentData - (transportConnWU - firstWU)
		allClosed := true
		for _, u := range aux.Users {
			if u.Resp != nil && !u.Closed {
				allClosed = false
			}
		}
		if allClosed && unreturned > 16384 {
			w.Violate("transport_credit_leak", "transport_credit_leak", "the peer sent %d bytes of response DATA, all bodies were read or closed, %d bytes of connection-level credit were never returned (bound 16384) | %s", sentData, unreturned, desc)
		}
		w.Probe("transport_credit_checked")
	}
	w.Probe("transport_world_runs")
}

#!/bin/sh
# usage: tools/runmutants.sh [name-glob] [tier]   applies each mutant to /repo, runs its checks, reverts
glob=${1:-*}; tier=${2:-quick}
cd /verif
for f in mutants/$glob.diff; do
  name=$(basename $f .diff)
  checks=$(head -1 $f | sed 's/# checks: //')
  git -C /repo checkout -q -- . ; git -C /repo apply /verif/$f || { echo "$name: APPLY FAILED"; continue; }
  for c in $checks; do
    out=$(bin/verif check $c --tier $tier 2>&1); rc=$?
    v=$(echo "$out" | grep -c "^VIOLATION")
    echo "$name $c: exit=$rc violations=$v $(echo "$out" | grep -m1 'class=' | cut -c1-160)"
  done
  git -C /repo checkout -q -- .
done
rm -rf /verif/replays/*/  # replays of mutants are not kept

#!/bin/sh
# applies every seeded change to /repo in turn, runs the check(s) of its property at the quick tier, reverts
cd /verif
for d in seeded/*/; do
  name=$(basename $d); prop=$(python3 -c "import json;print(json.load(open('$d/meta.json'))['property'])")
  extra=$(python3 -c "import json;print(' '.join(json.load(open('$d/meta.json')).get('also_checks',[])))")
  if python3 -c "import json,sys;sys.exit(0 if json.load(open('$d/meta.json')).get('superseded') else 1)"; then echo "$name: SKIP (superseded, see meta.json)"; continue; fi
  git -C /repo checkout -q -- . ; git -C /repo apply /verif/$d/patch.diff || { echo "$name: APPLY FAILED"; continue; }
  for c in $prop $extra; do
    out=$(bin/verif check $c --tier ${1:-quick} 2>&1); rc=$?
    echo "$name $c: exit=$rc $(echo "$out" | grep -m1 'class=' | cut -c1-140)"
  done
  git -C /repo checkout -q -- .
done
rm -rf /verif/replays/*/

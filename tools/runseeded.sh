#!/bin/sh
# applies every seeded change to a scratch worktree of /repo in turn (never to /repo itself), runs the
# check(s) of its property at the quick tier against that worktree (VERIF_REPO; no evidence is written)
cd "$(dirname "$0")/.." || exit 2   # the tree this script lives in
V=$(pwd)
WT=${TMPDIR:-/tmp}/verif-seedrun-$$
git -C /repo worktree add -q --detach $WT HEAD || exit 2
trap 'git -C /repo worktree remove --force $WT; git -C /repo worktree prune' EXIT
for d in seeded/*/; do
  name=$(basename $d); prop=$(python3 -c "import json;print(json.load(open('$d/meta.json'))['property'])")
  extra=$(python3 -c "import json;print(' '.join(json.load(open('$d/meta.json')).get('also_checks',[])))")
  if python3 -c "import json,sys;sys.exit(0 if json.load(open('$d/meta.json')).get('superseded') else 1)"; then echo "$name: SKIP (superseded, see meta.json)"; continue; fi
  git -C $WT checkout -q -- . ; git -C $WT apply $V/$d/patch.diff || { echo "$name: APPLY FAILED"; continue; }
  for c in $prop $extra; do
    out=$(VERIF_REPO=$WT bin/verif check $c --tier ${1:-quick} 2>&1); rc=$?
    echo "$name $c: exit=$rc $(echo "$out" | grep -m1 'class=' | cut -c1-140)"
  done
  git -C $WT checkout -q -- .
done
rm -rf $V/replays/*/

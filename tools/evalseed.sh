#!/bin/sh
# usage: tools/evalseed.sh <ID> <k> <pkgdir> <TestName> "<checks>" [tier]
# confirms the sub-agent's demo in its worktree (fails with, passes without), then runs the
# named checks against that worktree with the patch applied (VERIF_REPO: /repo is not touched,
# no evidence is written).  Prints a summary; stores nothing.
ID=$1; K=$2; PKG=$3; TEST=$4; CHECKS=$5; TIER=${6:-quick}
WT=/tmp/mut/$ID; M=$WT/_mutants
export GOFLAGS=-mod=mod GOPROXY=off GOSUMDB=off
cd $WT && git checkout -q -- . 
cp $M/m${K}_demo_test.go $WT/$PKG/zz_demo_m${K}_test.go
without=$(cd $WT && go test -vet=off -count=1 -run "^$TEST\$" ./$PKG/ 2>&1 | tail -1)
git apply $M/m$K.diff || { echo "APPLY FAILED in worktree"; exit 1; }
with=$(cd $WT && go test -vet=off -count=1 -run "^$TEST\$" ./$PKG/ 2>&1 | tail -1)
build=$(cd $WT && go build ./... 2>&1 | tail -1)
rm -f $WT/$PKG/zz_demo_m${K}_test.go
echo "demo without: $without"
echo "demo with   : $with   build: ${build:-ok}"
cd /verif
for c in $CHECKS; do
  out=$(VERIF_REPO=$WT bin/verif check $c --tier $TIER 2>&1); rc=$?
  echo "check $c ($TIER): exit=$rc $(echo "$out" | grep -m1 'class=' | cut -c1-220)"
done
cd $WT && git checkout -q -- .

#!/usr/bin/env python3
# Regenerates /verif/MANIFEST.json from the table below.
import json, os
props = [json.loads(l) for l in open('/verif/properties.jsonl')]
ids = [p['id'] for p in props]

A = "engine A (simproxy): whole proxy in one synctest bubble, seeded controller decides every delivery / client step / fence release / fault; rapid is the sole choice source; failures shrunk and replayed from the rapid fail file"
checks = {
 "C01": dict(cat="exploration", tech="deterministic simulation (seeded schedules and segmentation) + independent JA3 reference model",
   text="Seeded simulation of the real stack (utls client -> simnet -> proxyserver -> TLS -> h2 fork / net/http -> reverseproxy -> back-end) with generated ClientHellos; every forwarded request's X-JA3-Fingerprint is compared with an independent reference computed from the bytes the client put on the wire. Simulation decides the plumbing clause (delivery, protocol, concurrency, earlier requests); the value clause is sampled by the hello generator.",
   note="Trusts refhello (own parser + JA3 from the README), utls as hello generator (cannot emit every byte string), go1.26.8 crypto/tls as the accepting TLS stack. Hello fragmented over two records is outside the quantifier (O1).", ref="7/C01"),
 "C02": dict(cat="exploration", tech="deterministic simulation + independent JA4 reference model + metamorphic twins (permutation / GREASE)",
   text="Same world as C01; X-JA4-Fingerprint compared with an independent JA4 reference (FoxIO text) and, independently of the reference, between twin clients whose hellos differ only by cipher/extension permutation and GREASE insertion/alteration.",
   note="Where the text leaves a choice (1-byte / non-alphanumeric ALPN, empty lists) the reference accepts every reading. Trusts refhello and utls as generator.", ref="7/C02"),
 "C03": dict(cat="exploration", tech="deterministic simulation; raw-frame HTTP/2 client; prefix-set oracle from an independent fingerprint model",
   text="A scripted raw-frame client (own frame codec) drives the real forked HTTP/2 server through TLS; the controller decides how the frames reach the server relative to the handlers (yielding injector, fences in readFrames/sendServeMsg); X-HTTP2-Fingerprint at the back-end must equal the reference fingerprint of some prefix of the client's frame history between the request's own HEADERS and the frames written before the back-end saw it; every value of the priority-frame limit through the real flag; no fingerprint on HTTP/1.1 connections.",
   note="Generator stays inside sequences the server accepts (distinct SETTINGS ids: the server deliberately hangs up on duplicates). WU compared numerically except the absent case. Upper bound of the admissible prefix set is 'frames written', a sound over-approximation of 'frames processed'.", ref="7/C03"),
 "C06": dict(cat="exploration", tech="deterministic simulation of N overlapping connections; per-tag attribution oracle against per-connection reference values",
   text="2-8 clients with pairwise different hellos and HTTP/2 preambles, same/different peer addresses, keep-alive and multiplexed requests, resets and early closes, handlers overlapping through a yielding injector; every request's JA3 / JA4 / HTTP/2 fingerprint / X-Forwarded-For at the back-end must be its own connection's reference value.",
   note="Uniqueness of hellos is forced by a marker cipher per client. Reference values as in C01-C03.", ref="7/C06"),
 "C07": dict(cat="exploration", tech="deterministic simulation (handlers parked at a yielding injector while frames arrive) + race detector inside single-quantum coalesced runs",
   text="(a) snapshot clause: up to 8 concurrently open streams whose handlers are parked before the real injector while further SETTINGS/WINDOW_UPDATE/PRIORITY/HEADERS arrive one TLS write at a time, released in any order; each fingerprint must be the fingerprint of one prefix in the request's interval (single sequential writer: linearizability of the reads reduces to interval membership, so porcupine is not needed). (b) race clause: a -race build of the same worker runs the sessions coalesced into one delivery without fences so capture and Marshal fall into one quantum where the detector sees them; reports whose stacks touch processFrame capture / metadata / fingerprint count.",
   note="Cooperative scheduling cannot create a schedule point between the two field updates of one HEADERS-with-priority capture; only the race detector speaks to tearing inside one capture. Race runs are not replayable as schedules (the -race runtime randomises the scheduler); the report itself is the artefact.", ref="7/C07"),
 "C04": dict(cat="exploration", engine="simstream", tech="deterministic simulation of the byte stream under the wrapper (seeded cuts, short reads, EOF / reset / timeout at arbitrary offsets) + exhaustive enumeration of all cut schedules of short streams",
   text="hack.HijackClientHelloConn over a simulated connection: valid records of every length class and record version with following records, truncated / non-handshake / bad-version streams, crossed with read schedules and stream endings; transparency (bytes above == bytes below) and exactness (GetClientHello == first 5+len bytes iff complete, otherwise an error, asked after every read). All 2^11 compositions of ten 12-byte streams are enumerated exhaustively in both tiers. End to end, the same segmentation profiles run under C01/C02.",
   note="A read that returns bytes together with an error is only modelled as the terminal event of a stream (crypto/tls gives up on the first error). Records with a declared length >= 65531 wrap the wrapper's uint16 (O3), outside the quantifier.", ref="7/C04"),
 "C05": dict(cat="exploration", tech="deterministic simulation; unique client tokens tracked to the recording back-end",
   text="Requests carry unique client tokens under every configured fingerprint header name (random case, repeated) on both protocols, for every injector outcome (value / empty / error) and injector set; no token may reach the recording back-end and at most one value per name may arrive.",
   note="Injector outcomes for custom injectors are scripted; default injectors are the real ones.", ref="7/C05"),
 "C09": dict(cat="exploration", tech="deterministic simulation; forwarding headers at the recording back-end vs simulated peer addresses",
   text="Both protocols through the real listener->TLS->net/http / h2 chain with IPv4/IPv6 simulated peers and client-supplied Forwarded / X-Forwarded-* lines; the back-end's view is compared with what the simulator knows about the peer.",
   note="Peer addresses are simulated TCPAddr values.", ref="7/C09"),
 "C10": dict(cat="fault_enumeration", tech="deterministic simulation with enumerated fault injection (every byte offset / I/O operation index / callback occurrence of two fixed sessions) + seeded random fault and garbage runs; process liveness + control clients as oracle",
   text="Enumerates, over a fixed HTTP/1.1 and a fixed HTTP/2 session, a client disconnect (FIN and RST) after every byte offset, a read / write / deadline error at every I/O operation index of the proxy side of the connection, and a panic at every occurrence of every user callback reachable from the connection goroutine; plus seeded random runs with raw garbage, plain HTTP, mutated / truncated / random HTTP/2 frame bytes and HTTP/1.1 garbage inside real TLS sessions. After (and next to) each faulty connection control clients must be served with correct fingerprints; a worker process killed by the system under test is re-run alone at the announced case and reported as the violation.",
   note="exhaustive only over the two fixed sessions (thorough tier); quick tier samples every 7th index. Allocation failures and real syscall failures are not injectable.", ref="7/C10"),
 "C11": dict(cat="fault_enumeration", tech="deterministic simulation with enumerated aborts / stalls / idle periods under a simulated clock; goroutine census at quiescence as oracle",
   text="Enumerates a client abort (FIN and RST) at every byte offset of a fixed HTTP/1.1 and HTTP/2 session, a silent stall at every byte offset of the handshake for two handshake timeouts, and an idle period after served requests for two idle timeouts on both protocols, all through the real flag wiring and the simulated clock; plus seeded random runs with 1-8 connections of mixed kinds in parallel. Oracle: the proxy closed its side of every connection, the goroutine census (stable at quiescence) shows nothing still serving a connection, stalled handshakes are cut at the handshake timeout (not earlier), idle connections at the idle timeout on both protocols.",
   note="'eventually' is bounded at 217 simulated seconds after the last client went away. Census matches goroutines by function names (serveConn, http2 serverConn, net/http conn, persistConn, channel-listener send).", ref="7/C11"),
 "C16": dict(cat="exploration", tech="deterministic simulation of mixed connection outcomes; metric registry compared with the outcome multiset",
   text="1-8 concurrent connections with every outcome (h2, http/1.1, no ALPN, plain HTTP, garbage, stalls, handshake timeout, aborts during / after the handshake and mid-request, idle keep-alive) and controller-chosen completion order; fingerproxy_requests_total gathered from the real registry must equal the multiset implied by the outcomes, sum to the number of ended connections, and never run ahead of ended connections at intermediate quiescent points.",
   note="A client that aborts right after a TLS 1.3 handshake cannot know whether the server side completed; such connections are admitted with either label (the sum stays exact).", ref="7/C16"),
 "C17": dict(cat="exploration", tech="deterministic simulation; cancellation as a controller action at every decision index; simulated clock for the Shutdown poll",
   text="The server context is cancelled at a drawn decision index of a workload with handshakes in progress / stalled, idle keep-alive HTTP/1.1, open HTTP/2 and HTTP/1.1 exchanges held in flight by a slow back-end; also before Serve and repeatedly. Oracle: nothing attempted after the cancel reaches the back-end or gets an answer; the proxy writes nothing more on an HTTP/1.1 connection after Serve has returned (an exchange still in flight would); Serve returns http.ErrServerClosed with the listener closed within 2 simulated seconds of the cancel / last exchange; idle HTTP/1.1 connections are closed.",
   note="Observation O6: in-flight exchanges are cancelled (504) on shutdown because request contexts derive from the server context; the property does not promise their success.", ref="7/C17"),
 "C18": dict(cat="exploration", engine="simstream", tech="deterministic simulation of two HPACK endpoints (blocks one way in seeded fragments, table-size limits the other way with seeded delay, truncation at an offset) + differential reference for arbitrary bytes",
   text="Encoder and decoder of pkg/http2/hpack as two endpoints: header blocks reach the decoder in fragments cut at seeded offsets, table-size limits reach the encoder after a seeded number of further blocks, a block may be truncated by Close at any offset. Decided by the simulated histories: round trip (order, sensitivity), fragment independence, identical encoder/decoder dynamic tables within the permitted size after every block, truncation inside a field rejected with only complete fields emitted, no panic. The clause 'result is what RFC 7541 specifies for any byte string' is a pure function of the input and is only sampled, differentially against x/net hpack v0.19.0.",
   note="Component level only: nothing in the proxy imports pkg/http2/hpack (the fork's server uses golang.org/x/net/http2/hpack). The upstream reference shares defect D10 and is excluded from the comparison where it rejects a double size update.", ref="7/C18"),
 "C19": dict(cat="exploration", engine="simstream", tech="deterministic simulation of the pipe between a writing and a reading Framer (seeded cuts, short reads, failure at an offset) + independent frame codec as reference",
   text="Frames written by every Write* method with boundary and seeded parameters must equal the independent refframe encoding byte for byte and be read back as the same frames through a pipe that cuts and fails at seeded offsets (or fail with an I/O error, never a different frame, never above the read limit), header blocks reassembled across CONTINUATION by ReadMetaHeaders. Arbitrary frames / raw bytes: no panic, read limit respected, malformed frames and illegal HEADERS/CONTINUATION interleavings rejected with a code from the set RFC 7540 assigns (this clause is a pure function of the input: sampled, not decided by simulation).",
   note="SETTINGS value ranges and header-block opened by PUSH_PROMISE are judged one layer up (C13), not by the codec table. WriteHeaders cannot express 'padded with length 0' nor an all-zero priority; those are generated only on the arbitrary-bytes side.", ref="7/C19"),
 "C14": dict(cat="exploration", engine="simfs", tech="seeded file-operation histories against the real certwatcher / fsnotify / kernel inotify, sequenced by a sentinel-file barrier after every step; reference model of the on-disk pair",
   text="Histories of in-place writes (full / partial / garbage / empty), rename-over and Kubernetes-style symlinked-directory swaps on the two watched paths, either file order, mismatched pairs, same-key renewal, with a barrier after every step at which the presented pair is snapshotted (and every third step a real TLS handshake), optionally with a free-running observer during the steps. The presented pair must match its key, must have existed on disk as a complete pair, must be the new pair once a valid pair is fully in place, and the last good pair otherwise.",
   note="The kernel's inotify and the filesystem are real (a stub event source would encode my belief about which events each update style produces - the very thing under test); the schedule between steps is controlled by the barrier, the event interleaving inside one step is the kernel's. Delete-then-create-later of a watched file is outside the three named update styles (O4) and not generated.", ref="5, 7/C14"),
 "C13": dict(cat="exploration", tech="deterministic simulation; raw-frame client puts streams into known states (handlers parked by the back-end), then probes; catalogue of admissible reactions (refh2sm) from RFC 7540/9113",
   text="The server-side stream state is made a function of the client's frames alone (back-end handlers parked until the drain phase), then 1-4 probes from a catalogue of 46 (state, frame) situations plus two special scenarios are sent, with delivery order relative to the handlers chosen by the controller. Reaction must be in the admissible set (RST_STREAM / GOAWAY codes; where the RFC leaves a choice the set is the union), handlers start iff required, GOAWAY last-stream-id covers every request acted on, nothing is served after a connection error, and legal traffic (14 legal probe kinds + set-up + closing request) never draws an error.",
   note="A catalogue of (state, frame) pairs with random combination and ordering, not a closed-form function over all sequences. Upstream hardening outside the RFC is accommodated, not flagged: duplicate SETTINGS ids and surplus SETTINGS ACKs are refused by the server (O5). A queued RST_STREAM may be dropped when a later frame of the script tears the connection down.", ref="7/C13, appendix A"),
 "C15": dict(cat="exploration", tech="deterministic simulation; routing oracle (exactly one of local answer / back-end record)",
   text="User-Agent variants x methods x protocols x probe flag through the real flag wiring; each request must be answered locally or seen by the back-end, never both or neither, according to the prefix predicate.",
   note="HTTP/1.1 strips optional whitespace around field values before the predicate applies; the oracle accounts for that.", ref="7/C15"),
}
na_reason = "check not built yet (framework under construction); see DESIGN.md section 7"
m = {
 "version": 1,
 "setup_cmd": "cd /verif/cmd && GOFLAGS=-mod=mod GOPROXY=off GOSUMDB=off go build -o /verif/bin/verif ./verif",
 "hooks": {
  "guard": "verif",
  "enable": "each check copies /repo's working tree to $TMPDIR/verif-scratch/<id>, adds /verif/inject/* (all //go:build verif) and go/ast yield fences there, and builds the harness with -tags verif against that copy; nothing guarded is committed to /repo",
  "baseline_off_cmd": "cd /repo && go build ./... && go test -vet=off -count=1 ./...",
  "source_commits": [],
  "add_only": True,
 },
 "engines": [
  {"name": "simproxy", "path": "/verif/harness", "serves_properties": sorted(k for k in checks if checks[k].get("engine","simproxy")=="simproxy"), "kind_free_text": A},
  {"name": "simfs", "path": "/verif/harness", "serves_properties": sorted(k for k in checks if checks[k].get("engine")=="simfs"), "kind_free_text": "engine C (simfs): certificate hot-reload against the real kernel; seeded history generator; sentinel-file barrier through the same fsnotify watcher after every step"},
  {"name": "simstream", "path": "/verif/harness", "serves_properties": sorted(k for k in checks if checks[k].get("engine")=="simstream"), "kind_free_text": "engine B (simstream): library surfaces whose only contact with nondeterminism is the byte stream handed to them; single goroutine; the stream is cut, short-read and failed at seeded offsets; same choice source, same replay format"},
 ],
 "checks": [],
 "notes": "Orchestrator: bin/verif check <ID> --tier quick|thorough (honours VERIF_SEED, VERIF_TIER). Exit 0 held / 1 violation / 2 harness trouble. Known findings: /verif/KNOWN_FINDINGS.txt.",
 "not_applicable": [],
}
for pid in ids:
    if pid in checks:
        c = checks[pid]
        m["checks"].append({
          "property_id": pid,
          "quick_cmd": f"bin/verif check {pid} --tier quick",
          "thorough_cmd": f"bin/verif check {pid} --tier thorough",
          "evidence_file": f"/verif/evidence/{pid}.json",
          "replay_cmd_template": "bin/verif replay {path}",
          "engine": c.get("engine", "simproxy"),
          "level_claimed": {"category": c["cat"], "text": c["text"], "design_ref": "DESIGN.md section " + c["ref"]},
          "level_note": c["note"],
          "technique": c["tech"],
        })
    else:
        m["not_applicable"].append({"property_id": pid, "reason": na_reason})
json.dump(m, open('/verif/MANIFEST.json', 'w'), indent=1)
print("checks:", len(m["checks"]), "not_applicable:", len(m["not_applicable"]))

#!/bin/sh
# usage: tools/mkmutant.sh <name> <checks> <python-edit-script>   (edits /repo, captures the diff, reverts)
set -e
name=$1; checks=$2; script=$3
cd /repo && git checkout -q -- . && python3 -c "$script" && (cd /repo && go build ./... ) && { echo "# checks: $checks"; git diff; } > /verif/mutants/$name.diff; git checkout -q -- .
echo "mutant $name: $(grep -c '^[-+][^-+]' /verif/mutants/$name.diff) changed lines"

#!/usr/bin/env python3
# usage: tools/savewave.py <ID> <k> <slug> "<needs>" "<result>" [wave]
# stores /tmp/mut/<ID>/_mutants/m<k>.* as /verif/seeded/<ID>-<next letter>-<slug>/ (patch.diff, demo_test.go, author_notes.md, eval.txt, meta.json)
import sys, os, json, re, shutil, string
ID, k, slug, needs, result = sys.argv[1:6]
wave = int(sys.argv[6]) if len(sys.argv) > 6 else 12
M = '/tmp/mut/%s/_mutants' % ID
ID = os.environ.get('PROP', ID)  # worktree name and property id may differ (wave 13: /tmp/mut/D07 holds changes for C07)
used = {d.split('-')[1] for d in os.listdir('/verif/seeded') if d.startswith(ID + '-')}
letter = next(c for c in string.ascii_lowercase if c not in used)
D = '/verif/seeded/%s-%s-%s' % (ID, letter, slug)
os.makedirs(D)
shutil.copy(M + '/m%s.diff' % k, D + '/patch.diff')
shutil.copy(M + '/m%s_demo_test.go' % k, D + '/demo_test.go')
shutil.copy(M + '/m%s.md' % k, D + '/author_notes.md')
ev = open(M + '/eval%s.txt' % k).read() if os.path.exists(M + '/eval%s.txt' % k) else ''
open(D + '/eval.txt', 'w').write(ev)
md = open(M + '/m%s.md' % k).read()
pkg = (re.search(r'(?im)^pkgdir:\s*(\S+)', md) or [None, '.'])[1].strip('`')
test = (re.search(r'(?im)^test:\s*(\S+)', md) or [None, 'TestDemoM' + k])[1].strip('`')
json.dump({"property": ID, "origin": "independent sub-agent given only the property text and a scratch worktree",
  "needs_to_manifest": needs,
  "demonstration": "copy demo_test.go to %s as zz_demo_test.go; go test -vet=off -count=1 -run %s ./%s/" % (pkg, test, pkg),
  "what_i_ran": "tools/evalseed.sh (eval.txt): demo in the scratch worktree without / with the patch (passes / fails), go build ./... with the patch, then the property's check at the quick tier against that worktree (VERIF_REPO; /repo itself is never patched)",
  "result": result, "wave": wave}, open(D + '/meta.json', 'w'), indent=1)
print('saved', D)

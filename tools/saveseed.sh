#!/bin/sh
# usage: tools/saveseed.sh <ID> <k> <name> <property> "<needs>" "<result>" "<demo how>"
ID=$1; K=$2; NAME=$3; PROP=$4; NEEDS=$5; RESULT=$6; DEMO=$7
D=/verif/seeded/$NAME; mkdir -p $D
cp /tmp/mut/$ID/_mutants/m$K.diff $D/patch.diff
cp /tmp/mut/$ID/_mutants/m${K}_demo_test.go $D/demo_test.go 2>/dev/null || cp -r /tmp/mut/$ID/_mutants/m${K}_demo $D/demo
cp /tmp/mut/$ID/_mutants/m$K.md $D/author_notes.md
python3 - "$D" "$PROP" "$NEEDS" "$RESULT" "$DEMO" <<'PY'
import json,sys
d,prop,needs,result,demo=sys.argv[1:6]
json.dump({"property":prop,"origin":"independent sub-agent given only the property text and a scratch worktree","needs_to_manifest":needs,"demonstration":demo,"what_i_ran":"tools/evalseed.sh: demo in the worktree without / with the patch (passes / fails), then the checks run against that worktree with the patch applied (VERIF_REPO; /repo itself is never patched)","result":result},open(d+"/meta.json","w"),indent=1)
PY
echo saved $D

#!/usr/bin/env python3
# regenerates seeded/README.md from the meta.json files
import json, os, glob
root = '/verif/seeded'
rows, missed, sup = [], [], []
for d in sorted(glob.glob(root + '/*/')):
    name = os.path.basename(d.rstrip('/'))
    m = json.load(open(d + 'meta.json'))
    res = m['result']
    if m.get('superseded'):
        sup.append(name)
    elif 'caught' not in res:
        missed.append(name)
    rows.append('| %s | %s | %s | %s |' % (name, m['property'], m['needs_to_manifest'].replace('|', '/'), res.replace('|', '/')))
n = len(rows)
out = ['# Seeded changes (written by independent sub-agents)', '',
       'Each directory holds `patch.diff` (applies to /repo with `git -C /repo apply`; `patch.orig.diff` where the author\'s patch had to be rebased onto a later `fix:` commit), the author\'s demonstration (`demo_test.go`: fails with the patch, passes without; how to run it is in `meta.json` / `author_notes.md`), the author\'s notes and `meta.json` (property, what the change needs in order to manifest, what I ran, result; `also_checks`: sibling checks that catch it too). Every change compiles and passes the repository\'s own test suite. Re-run all of them with `tools/runseeded.sh`. Three waves: -a/-b (waves 1 and 2, two per property), -c/-d/-e (wave 3, three each for ten properties).', '',
       '| change | property | needs | result |', '|---|---|---|---|'] + rows + ['',
       '%d changes; %d caught (after strengthening where noted); superseded by a fix: %s; not caught: %s' % (n, n - len(missed) - len(sup), sup or 'none', missed or 'none'), '']
open(root + '/README.md', 'w').write('\n'.join(out))
print(out[-2])

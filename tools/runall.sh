#!/bin/sh
# runs every registered check at the given tier (default quick); prints one line per check
tier=${1:-quick}
cd "$(dirname "$0")/.." || exit 2   # the tree this script lives in (a vp-run snapshot runs itself, not /verif)
for id in $(python3 -c "import json;print(' '.join(c['property_id'] for c in json.load(open('MANIFEST.json'))['checks']))"); do
  out=$(bin/verif check $id --tier $tier 2>&1); rc=$?
  echo "$id rc=$rc $(echo "$out" | grep '^check ' | cut -c1-220)"
  echo "$out" | grep "^VIOLATION\|TROUBLE" | head -3
done

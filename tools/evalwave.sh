#!/bin/sh
# usage: tools/evalwave.sh <ID> [checks]   - evaluates m1 and m2 of /tmp/mut/<ID>/_mutants with tools/evalseed.sh
# (package directory and test name are read from the first lines of m<k>.md); output to /tmp/mut/<ID>/_mutants/eval<k>.txt
ID=$1; CHECKS=${2:-$ID}
for K in 1 2; do
  M=/tmp/mut/$ID/_mutants
  [ -f $M/m$K.diff ] || continue
  PKG=$(grep -m1 -i '^pkgdir:' $M/m$K.md | sed 's/^[^:]*:[ ]*//; s/[` ]//g'); [ -z "$PKG" ] && PKG=.
  TEST=$(grep -m1 -i '^test:' $M/m$K.md | sed 's/^[^:]*:[ ]*//; s/[` ]//g'); [ -z "$TEST" ] && TEST=TestDemoM$K
  /verif/tools/evalseed.sh $ID $K "$PKG" "$TEST" "$CHECKS" > $M/eval$K.txt 2>&1
  echo "== $ID m$K ($PKG $TEST)"; cat $M/eval$K.txt
done

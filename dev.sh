#!/bin/sh
# dev helper (not registered): build the worker against a scratch copy and run one check in-process
# usage: ./dev.sh C01 [checks] [seed] [extra args]

export GOFLAGS=-mod=mod GOPROXY=off GOSUMDB=off GOTOOLCHAIN=local
ID=$1; N=${2:-200}; SEED=${3:-1}; shift; shift || true; shift || true
VERIF_RUNS=0 /verif/bin/verif check $ID --keep >/dev/null 2>&1 || true
D=$(ls -dt ${VERIF_SCRATCH:-/tmp/verif-scratch}/$ID-* | head -1)
mkdir -p $D/dev && cd $D/dev
timeout -s QUIT ${DEVTIMEOUT:-240} env VERIF_CHECK=$ID VERIF_OUT=$D/dev/stats.json VERIF_KNOWN=${VERIF_KNOWN:-/verif/KNOWN_FINDINGS.txt} $D/worker.test -test.run '^TestWorker$' -test.timeout 0 -rapid.checks=$N -rapid.seed=$SEED -rapid.shrinktime=10s -rapid.nofailfile "$@" > $D/dev/out.txt 2>&1; grep -v "\[rapid\] draw" $D/dev/out.txt | tail -${TAIL:-15}
python3 -c "
import json;d=json.load(open('$D/dev/stats.json'));d['samples']=[s[:300] for s in d['samples'][:1]];d['scheds']=len(d['scheds']);d.pop('rule',None)
f=d.get('failure')
if f: f['decisions']=len(f.get('decisions') or []); f['log']=f.get('log','')[-1500:]
print(json.dumps(d,indent=1)[:6000])"
